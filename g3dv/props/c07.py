"""C07 - move translates the object in place and keeps it self-consistent."""
import copy
import random
from fractions import Fraction as F

from .. import kernel as K
from .. import monitor as M
from .. import core, gen
from ..desc import lift, lower, same_set, translate
from ..lib import load
from . import common as C

ID = "C07"
BUDGET = {"quick": 3200, "thorough": 80000}
SOFT = {"quick": 80, "thorough": 560}
RULE = ("histories of 1-6 moves by lattice vectors (zero, axis-aligned, generic) on receivers of all seven types, two styles: "
        "(A) one receiver moved repeatedly, observing the receiver and the current step's return value, (B) chaining on return "
        "values; after every step both observed objects are probed (invariant hooks, denoted set vs the exactly translated "
        "descriptor, ==/hash against a freshly constructed object, `in` with feature/off points, intersection with partner "
        "objects of other kinds, distance/angle/parallel/orthogonal, measures) and the answers compared with those of the fresh "
        "object; the history ends with move(v); move(-v) against a deep copy; distinct by content hash of the whole history")
REQUIRED_FUNCS = ("Point.move", "Line.move", "Plane.move", "Segment.move", "HalfLine.move", "ConvexPolygon.move",
                  "ConvexPolyhedron.move")
_diag = {"steps": 0, "probes": 0, "probes_not_admitted": 0}


def required_cells(tier):
    q = tier == "quick"
    req = {}
    for k in gen.KINDS:
        for st in ("A", "B"):
            req["kind:%s/style-%s" % (k, st)] = 40 if q else 800
    for v in ("zero", "axis", "generic", "own-direction"):
        req["vector:" + v] = 100
    for p in ("in", "intersection", "eq-hash", "measure", "scalar-query", "there-and-back", "deepcopy-interleaved"):
        req["probe:" + p] = 200
    req["receiver:derived-by-negation"] = 100
    req["pose:moved-into-the-minus1-minus2-slab"] = 20 if q else 400
    req["nt:int"] = 50
    req["nt:Fraction"] = 100
    return req


def _rvec(rng):
    r = rng.random()
    if r < 0.1:
        return (F(0), F(0), F(0))
    if r < 0.4:
        v = [F(0), F(0), F(0)]
        v[rng.randrange(3)] = F(rng.randint(-8, 8), rng.choice((1, 2, 4)))
        return tuple(v)
    return tuple(F(rng.randint(-8, 8), rng.choice((1, 2, 4))) for _ in range(3))


def _own_vectors(d):
    k = d[0]
    if k == "P":
        return [K.mul(d[1], -1)] if d[1] != (0, 0, 0) else []
    if k in ("L", "H"):
        return [d[2]]
    if k == "S":
        return [K.sub(d[2], d[1])]
    if k == "PL":
        u, v = gen._plane_basis(d[2])
        return [gen._reduce(d[2]), u, v]
    if k == "PG":
        vs = d[1]
        return [K.sub(vs[1], vs[0]), K.sub(vs[2], vs[1]), gen._reduce(K.polygon_normal(vs))]
    if k == "PH":
        f = d[2][0]
        return [K.sub(f[1], f[0]), K.sub(f[2], f[1]), K.sub(d[1][0], d[1][-1])]
    return []


def cases(rng, budget, widx, nworkers, tier):
    sm = lambda: tier == "quick" or rng.random() < 0.5      # thorough: half of the bodies from the full families (prisms, bipyramids, general hulls)
    i = widx
    while True:
        k = gen.KINDS[i % 7]
        style = "AB"[(i // 7) % 2]
        i += 1
        d = gen.rand_obj(rng, k, small=sm())
        moves = [_rvec(rng) for _ in range(rng.randint(1, 6))]
        # structured vectors: along / against the object's own direction, an edge, the normal, or back to the origin
        own = _own_vectors(d)
        for j in range(len(moves)):
            if own and rng.random() < 0.3:
                moves[j] = K.mul(rng.choice(own), rng.choice((1, -1, 2, F(1, 2), F(-1, 2), 3)))
            elif own and rng.random() < 0.12:
                # almost, but not exactly, along the object's own direction (a few hundredths of a radian off)
                o_ = rng.choice(own)
                e_ = [F(0), F(0), F(0)]
                e_[rng.randrange(3)] = rng.choice((F(1, 4), F(-1, 4)))
                cand = K.add(K.mul(o_, rng.choice((4, -4, 6, 8))), tuple(e_))
                if K.cross(cand, o_) != (0, 0, 0) and max(abs(c) for c in cand) <= 40:
                    moves[j] = cand
        lab = None
        if k in ("PG", "PH") and rng.random() < 0.08:
            # the moves end (or pass) where two vertices / faces of the object differ only in a coordinate -1 against -2,
            # the one pair of small numbers CPython hashes alike
            if k == "PH":
                c, tgt = gen.slab_body(rng, wide=rng.random() < 0.3)
            else:
                c, _w, tgt = gen.slab_polygon(rng)
            if rng.random() < 0.5:
                step = [F(0)] * 3
                step[c] = F(-1)
                moves = [tuple(step)] * rng.randint(1, 4)
            tot = (F(0), F(0), F(0))
            for m in moves:
                tot = K.add(tot, m)
            from ..desc import translate
            d0 = translate(tgt, K.mul(tot, -1))
            if gen.ok_coords(d0, 8, 40):
                d = d0
                lab = "moved-into-the-minus1-minus2-slab"
        yield {"d": d, "style": style, "moves": moves, "ls": rng.getrandbits(30), "ps": rng.getrandbits(30), "label": lab,
               "neg": rng.random() < 0.3, "copy_at": [j for j in range(len(moves)) if rng.random() < 0.25],
               "switch": rng.random() < 0.3, "nt": rng.choice(("float", "float", "float", "int", "int", "Fraction"))}


def _vclass(v):
    nzc = sum(1 for c in v if c != 0)
    return "zero" if nzc == 0 else ("axis" if nzc == 1 else "generic")


def _close(a, b):
    return abs(a - b) <= 1e-9 * max(1.0, abs(b))


def _probe(G, mu, tag, o, fresh, desc, prng, k, measures0):
    """compare every query on `o` with the same query on the freshly built object"""
    key = "%s:%s" % (k, tag)
    if M.kind(o) != k:
        mu.fail(key + ":wrong-type", "%s is a %s, expected %s" % (tag, M.kind(o), k))
        return
    bad = M.invariants(o)
    if bad:
        mu.fail(key + ":invariant", "%s after move: %s" % (tag, bad[0]))
        return
    same, why = same_set(lower(o), desc)
    if not same:
        mu.fail(key + ":not-translated", "%s does not denote the translated object: %s" % (tag, why))
        return
    # equality / hash against the fresh object
    mu.cell("probe:eq-hash")
    r, exc, _ = M.call(lambda a, b: (a == b, b == a, hash(a) == hash(b)), o, fresh)
    if exc is not None:
        mu.fail(key + ":eq-hash-raises", "==/hash raised %r" % exc)
    elif not (r[0] and r[1]):
        mu.fail(key + ":not-equal-to-fresh", "%s == freshly constructed translated object is %r" % (tag, r[:2]))
    elif not r[2]:
        mu.fail(key + ":hash-differs-from-fresh", "%s and the freshly constructed translated object are == but hash differently" % tag)
    # membership probes
    if k != "P":
        pts = gen.all_features(desc)
        prng.shuffle(pts)
        pts = pts[:4] + [K.add(pts[0], (F(1, 4), F(0), F(1, 2))), gen.rpt(prng)]
        for q in pts:
            if not gen.ok_coords(("P", q), 64, 40):
                continue
            K.reset()
            exp = K.contains_point(desc, q)
            _diag["probes"] += 1
            if not core.admitted():
                _diag["probes_not_admitted"] += 1
                continue
            mu.cell("probe:in")
            qp = G.Point(*[float(c) for c in q])
            a, e1, _ = M.call(lambda x, s: x in s, qp, o)
            b, e2, _ = M.call(lambda x, s: x in s, qp, fresh)
            if e1 is not None or e2 is not None:
                if (e1 is None) != (e2 is None):
                    mu.fail(key + ":in-raises", "Point in %s raised %r (fresh: %r)" % (tag, e1, e2))
                continue
            if bool(a) != bool(b) or bool(a) != exp:
                mu.fail(key + ":in-differs", "point %s in %s is %r; in the fresh object %r; exact %s" % (C.show_short(q), tag, a, b, exp))
                return
    # intersection with partners
    for pk in prng.sample(gen.KINDS, 3):
        partner = gen.targeted(prng, pk, desc) if prng.random() < 0.6 else gen.rand_obj(prng, pk, small=True)
        K.reset()
        exp = K.inter(desc, partner)
        _diag["probes"] += 1
        if not core.admitted():
            _diag["probes_not_admitted"] += 1
            continue
        M.ST.hash_flag = False
        po = lift(partner, None)
        a, e1, _ = M.call(G.intersection, o, po)
        b, e2, _ = M.call(G.intersection, fresh, po)
        if M.ST.hash_flag:
            continue
        mu.cell("probe:intersection")
        if e1 is not None or e2 is not None:
            if (e1 is None) != (e2 is None):
                mu.fail(key + ":intersection-raises", "intersection(%s, %s) raised %r (fresh: %r)" % (tag, pk, e1, e2))
            continue
        same, why = same_set(lower(a), lower(b))
        if not same:
            mu.fail(key + ":intersection-differs", "intersection(%s, %s partner) differs from the fresh object's: %s; exact %s" % (tag, pk, why, C.show_short(exp, 120)))
            return
        if k in ("L", "PL") and pk in ("P", "L", "PL") and not (k == "PL" and pk == "PL"):
            mu.cell("probe:scalar-query")
            a, e1, _ = M.call(G.distance, o, po)
            b, e2, _ = M.call(G.distance, fresh, po)
            if (e1 is None) != (e2 is None) or (e1 is None and not _close(a, b)):
                mu.fail(key + ":distance-differs", "distance(%s, %s) = %r, fresh %r" % (tag, pk, e1 or a, e2 or b))
        if k in ("L", "PL") and pk in ("L", "PL"):
            for fn in ("angle", "parallel", "orthogonal"):
                a, e1, _ = M.call(getattr(G, fn), o, po)
                b, e2, _ = M.call(getattr(G, fn), fresh, po)
                if (e1 is None) != (e2 is None) or (e1 is None and ((fn == "angle" and abs(a - b) > 1e-9) or (fn != "angle" and bool(a) != bool(b)))):
                    mu.fail(key + ":%s-differs" % fn, "%s(%s, %s) = %r, fresh %r" % (fn, tag, pk, e1 or a, e2 or b))
    # measures
    if k in ("S", "PG", "PH"):
        mu.cell("probe:measure")
        for name in ("length", "area", "volume"):
            if not hasattr(o, name):
                continue
            a, e1, _ = M.call(lambda x: getattr(x, name)(), o)
            b, e2, _ = M.call(lambda x: getattr(x, name)(), fresh)
            if e1 is not None or e2 is not None:
                if (e1 is None) != (e2 is None):
                    mu.fail(key + ":%s-raises" % name, "%s() raised %r (fresh %r)" % (name, e1, e2))
                continue
            if not _close(a, b) or not _close(a, measures0[name]):
                mu.fail(key + ":%s-changed" % name, "%s() = %r after move; fresh %r; before %r" % (name, a, b, measures0[name]))


def judge(case):
    G = load()
    d, style = case["d"], case["style"]
    k = d[0]
    mu = core.Multi()
    mu.cell("kind:%s/style-%s" % (k, style))
    if case.get("label"):
        mu.cell("pose:" + case["label"])
    nt = {"int": int, "Fraction": F}.get(case.get("nt"), float)
    if nt is int and not all(F(c).denominator == 1 for c in gen.coords_of(d)):
        nt = float
    mu.cell("nt:" + nt.__name__)
    obj = lift(d, random.Random(case["ls"]), nt)
    if case.get("neg") and k in ("PG", "PL"):
        # a receiver obtained by negation: the same set, but an object wired by another code path
        obj = -(-obj) if k == "PG" else -obj
        mu.cell("receiver:derived-by-negation")
    copies = []          # (deep copy, descriptor it denoted when it was taken)
    prng = random.Random(case["ps"])
    measures0 = {n: getattr(obj, n)() for n in ("length", "area", "volume") if hasattr(obj, n) and k in ("S", "PG", "PH")}
    cur = d
    for step_no, v in enumerate(case["moves"]):
        if mu.viol is not None:
            break
        if step_no in case.get("copy_at", ()):
            c, e, _ = M.call(copy.deepcopy, obj, pure=False)
            if e is None:
                mu.cell("probe:deepcopy-interleaved")
                copies.append((c, cur))
                if case.get("switch") and style == "A":
                    # continue the history on the copy; the original must stay where it is
                    copies[-1] = (obj, cur)
                    obj = c
        mu.cell("vector:" + _vclass(v))
        if any(K.cross(v, w) == (0, 0, 0) and v != (0, 0, 0) for w in _own_vectors(cur)):
            mu.cell("vector:own-direction")
        _diag["steps"] += 1
        vec = G.Vector(*[float(c) for c in v])
        ret, exc, _ = M.call(lambda o, w: o.move(w), obj, vec, pure=False)
        if exc is not None:
            mu.fail("%s:move-raises-%s" % (k, M.classify_exc(exc)), "%s.move(%s) raised %s: %s" % (gen.NAMES[k], C.show_short(v), type(exc).__name__, exc))
            break
        cur = translate(cur, v)
        fresh = lift(cur, random.Random(case["ls"]), nt if nt is not int or all(F(c).denominator == 1 for c in gen.coords_of(cur)) else float)
        if style == "A":
            r, e, _ = M.call(lambda a, b: a == b, ret, obj)
            if e is not None or not r:
                mu.fail("%s:return-not-equal-to-receiver" % k, "move() returned an object that is not == the moved receiver (%r)" % (e or r))
            _probe(G, mu, "receiver", obj, fresh, cur, prng, k, measures0)
            if mu.viol is None:
                _probe(G, mu, "returned", ret, fresh, cur, prng, k, measures0)
        else:
            _probe(G, mu, "returned", ret, fresh, cur, prng, k, measures0)
            obj = ret
        for c, dc in copies:
            same, why = same_set(lower(c), dc)
            if not same or M.invariants(c):
                mu.fail("%s:deepcopy-follows-the-moved-object" % k, "a deep copy taken earlier changed when the other object was moved: %s" % (why or M.invariants(c)[0]))
                break
    if mu.viol is None:
        mu.cell("probe:there-and-back")
        w = case["moves"][-1]
        snap0 = copy.deepcopy(obj)
        _, e1, _ = M.call(lambda o, a: o.move(a), obj, G.Vector(*[float(c) for c in w]), pure=False)
        back, e2, _ = M.call(lambda o, a: o.move(a), obj, G.Vector(*[float(-c) for c in w]), pure=False)
        if e1 is not None or e2 is not None:
            mu.fail("%s:move-raises-%s" % (k, M.classify_exc(e1 or e2)), "move(v); move(-v) raised %r" % (e1 or e2))
        else:
            for tag, o in (("receiver", obj), ("returned", back)):
                same, why = same_set(lower(o), cur)
                r, e, _ = M.call(lambda a, b: a == b, o, snap0)
                if not same or e is not None or not r:
                    mu.fail("%s:%s:there-and-back-not-restored" % (k, tag), "move(v); move(-v): %s is not equal to the deep copy taken before (%s)" % (tag, why or e or r))
    return mu.result(outcome="%d moves" % len(case["moves"]))


def worker_report():
    return dict(_diag)


def describe(case):
    return {"d": C.show_short(case["d"], 200), "style": case["style"], "moves": [C.show_short(m) for m in case["moves"]]}
