"""C09 - polygon / polyhedron construction is order-independent and canonical."""
import itertools
import random
from fractions import Fraction as F

from .. import kernel as K
from .. import monitor as M
from .. import core, gen
from ..desc import lift, lower, same_set, _match_sets
from ..desc import lift as _lift_unused
from ..lib import load
from . import common as C
from .c06 import build_polyhedron

ID = "C09"
BUDGET = {"quick": 16000, "thorough": 300000}
SOFT = {"quick": 70, "thorough": 560}
RULE = ("convex lattice polygons with 3-8 vertices: every permutation of the vertex list for <=5 vertices (enumerated), sampled "
        "permutations beyond, with duplicated vertices inserted; lattice hulls with 4-10 faces in shuffled face order with all "
        "2^F orientation patterns for F<=6 (enumerated) and sampled beyond; polygons / polyhedra returned by intersections fed "
        "back through the constructors from their own (noisy) vertex lists in shuffled order; decided by the invariant hooks "
        "(cycle counter-clockwise about the stored normal, outward face normals, V-E+F=2, edge-manifold, centre inside) and "
        "set comparison with the exact hull; distinct by content hash")
REQUIRED_FUNCS = ("ConvexPolygon.__init__", "ConvexPolygon._check_and_sort_points", "ConvexPolygon.__neg__",
                  "ConvexPolyhedron.__init__", "ConvexPolyhedron._check_normal", "ConvexPolyhedron._euler_check", "Plane.__neg__")
_diag = {"fed_back_polygons": 0, "fed_back_polyhedra": 0}


def required_cells(tier):
    q = tier == "quick"
    req = {}
    for m in range(3, 9):
        req["polygon:%d" % m] = 50 if q else 1000
    req["polygon:exhaustive-perms"] = 200
    req["polygon:duplicates"] = 100
    req["polygon:negated-then-moved"] = 100
    req["polygon:receiver-is-a-negation"] = 50
    req["polygon:constructed-with-reverse=True"] = 300
    req["history:second-body-from-the-same-face-objects-moved-away"] = 30 if q else 600
    req["history:rebuilt-from-its-own-faces-moved-into-place"] = 30 if q else 600
    req["polyhedron"] = 300 if q else 6000
    req["polyhedron:exhaustive-orientations"] = 100
    req["fed-back:PG"] = 30 if q else 600
    req["polyhedron:face-object-reused-in-the-neighbour"] = 50 if q else 1500
    req["fed-back:PH"] = 8 if q else 300
    for fam in ("tetrahedron", "hexahedron", "pyramid", "prism"):
        req["body:" + fam] = 10
    return req


def cases(rng, budget, widx, nworkers, tier):
    while True:
        r = rng.random()
        if r < 0.4:
            d = gen.rand_obj(rng, "PG")
            m = len(d[1])
            if m <= 5 and rng.random() < 0.4:
                for p in itertools.permutations(range(m)):
                    yield {"k": "PG", "d": d, "order": list(p), "exh": True, "rev": rng.random() < 0.3}
            else:
                for _ in range(4):
                    p = list(range(m))
                    rng.shuffle(p)
                    if rng.random() < 0.4:
                        p += [rng.randrange(m) for _ in range(rng.randint(1, 3))]
                        rng.shuffle(p)
                    c_ = {"k": "PG", "d": d, "order": p, "rev": rng.random() < 0.25}
                    if rng.random() < 0.3:
                        c_["hv"] = [rng.randint(-6, 6) for _ in range(3)]
                        c_["negrecv"] = rng.choice((0, 0, 1, 2))       # the polygon that is moved is itself -p / -(-p)
                    yield c_
        elif r < 0.7:
            d = gen.rand_polyhedron(rng, small=rng.random() < 0.4)
            nf = len(d[2])
            if nf > 10:
                continue
            if nf <= 6 and rng.random() < 0.3:
                fo = list(range(nf))
                rng.shuffle(fo)
                for bits in range(1 << nf):
                    yield {"k": "PH", "d": d, "forder": fo, "flips": bits, "rots": [rng.randrange(6) for _ in range(nf)], "exh": True}
            else:
                for _ in range(3):
                    fo = list(range(nf))
                    rng.shuffle(fo)
                    c_ = {"k": "PH", "d": d, "forder": fo, "flips": rng.getrandbits(nf), "rots": [rng.randrange(6) for _ in range(nf)]}
                    hr = rng.random()
                    if hr < 0.15:
                        c_["h9"] = "second-body-from-the-same-face-objects-moved-away"
                    elif hr < 0.3:
                        c_["h9"] = "rebuilt-from-its-own-faces-moved-into-place"
                    if "h9" in c_:
                        c_["w"] = [rng.randint(-6, 6) or 1 for _ in range(3)]
                        c_["fo2"] = rng.sample(range(nf), nf)
                    yield c_
        elif r < 0.86:
            # two prisms stacked on a common face: the upper one is built with the face OBJECT taken from the lower one
            base = gen.rand_polygon(rng, 3, 6, 3)
            n = K.polygon_normal(base[1])
            h1, h2 = gen.rdir(rng, 2), None
            if K.dot(h1, n) == 0:
                continue
            h2 = K.mul(h1, rng.choice((F(1, 2), 1, 2)))
            yield {"k": "STACK", "base": base, "h1": h1, "h2": h2, "ss": rng.getrandbits(30)}
        else:
            ka, kb = rng.choice((("PG", "PG"), ("PG", "PH"), ("PH", "PH"), ("PH", "PH"), ("PL", "PH")))
            (a, b), label = gen.gen_pair(rng, ka, kb, small=True)
            yield {"k": "FB", "a": a, "b": b, "ls": rng.getrandbits(30), "ss": rng.getrandbits(30)}


def _faces(G, faces, forder, flips, rots):
    polys = []
    for j, fi in enumerate(forder):
        f = list(faces[fi])
        r = rots[j] % len(f)
        f = f[r:] + f[:r]
        if (flips >> j) & 1:
            f.reverse()
        polys.append(G.ConvexPolygon(tuple(G.Point(*[float(c) for c in v]) for v in f)))
    return polys


def _check_polygon(G, mu, pg, want_pts, key, tol=1e-7):
    """pg must have exactly the distinct vertices want_pts (floats) in a CCW cycle, and negation must behave"""
    bad = M.invariants(pg)
    if bad:
        mu.fail(key + ":invariant", "constructed polygon: %s" % bad[0])
        return
    got = [(float(p.x), float(p.y), float(p.z)) for p in pg.points]
    if not _match_sets(got, want_pts, tol):
        mu.fail(key + ":vertex-set", "polygon has %d vertices, the input has %d distinct ones" % (len(got), len(want_pts)))
        return
    # the stored cycle is the boundary cycle (consecutive vertices are neighbours on the boundary), counter-clockwise
    # about the stored normal
    m = len(want_pts)
    if m >= 3 and len(got) == m:
        idx = [min(range(m), key=lambda j: K.norm(K.sub(want_pts[j], g))) for g in got]
        steps = {(idx[(i + 1) % m] - idx[i]) % m for i in range(m)}
        if steps not in ({1}, {m - 1}):
            mu.fail(key + ":not-the-boundary-cycle", "stored vertex order %r (indices into the convex boundary order) is not a boundary cycle" % (idx,))
            return
        nrm = tuple(float(c) for c in pg.plane.n)
        turn = K.dot(K.cross(K.sub(got[1], got[0]), K.sub(got[2], got[1])), nrm)
        if not turn > 0:
            mu.fail(key + ":cycle-not-counter-clockwise-about-the-normal", "the stored cycle turns clockwise about the stored normal")
            return
    neg, exc, imp = M.call(lambda p: -p, pg)
    if exc is not None:
        mu.fail(key + ":neg-raises-" + M.classify_exc(exc), "-polygon raised %r" % exc)
        return
    if imp:
        mu.fail(key + ":neg-modifies-operand", imp)
    bad = M.invariants(neg)
    if bad:
        mu.fail(key + ":neg-invariant", "-polygon: %s" % bad[0])
        return
    ngot = [(float(p.x), float(p.y), float(p.z)) for p in neg.points]
    n1 = tuple(float(c) for c in pg.plane.n)
    n2 = tuple(float(c) for c in neg.plane.n)
    if not _match_sets(ngot, got, tol):
        mu.fail(key + ":neg-vertex-set", "-polygon has other vertices")
    elif K.norm(K.add(n1, n2)) > 1e-9:
        mu.fail(key + ":neg-normal-not-reversed", "(-p).plane.n = %r, p.plane.n = %r" % (n2, n1))
    else:
        # orientation reversed: the cycle of -p is the reverse cycle of p
        i0 = min(range(len(ngot)), key=lambda i: K.norm(K.sub(ngot[i], got[0])))
        m = len(got)
        rev = all(K.norm(K.sub(ngot[(i0 - j) % m], got[j])) <= tol for j in range(m))
        if not rev:
            mu.fail(key + ":neg-cycle-not-reversed", "the vertex cycle of -p is not the reverse of p's")
    nn, exc, _ = M.call(lambda p: -(-p), pg)
    if exc is not None:
        mu.fail(key + ":negneg-raises", "-(-p) raised %r" % exc)
    else:
        n3 = tuple(float(c) for c in nn.plane.n)
        if K.norm(K.sub(n1, n3)) > 1e-9 or not _match_sets([(float(p.x), float(p.y), float(p.z)) for p in nn.points], got, tol) or M.invariants(nn):
            mu.fail(key + ":negneg-differs", "-(-p) does not match p (normal %r vs %r)" % (n3, n1))


def _check_polyhedron(G, mu, ph, d, key, tol=1e-7):
    """ph must have outward normals and exactly the vertex / edge / face sets of the exact body d"""
    bad = M.invariants(ph)
    if bad:
        mu.fail(key + ":invariant", "constructed polyhedron: %s" % bad[0])
        return
    want_v = [K.fl(v) for v in d[1]]
    got_v = [(float(p.x), float(p.y), float(p.z)) for p in ph.point_set]
    if not _match_sets(got_v, want_v, tol):
        mu.fail(key + ":vertex-set", "point_set has %d points, the body has %d vertices" % (len(got_v), len(want_v)))
        return

    def idx(p):
        for i, q in enumerate(want_v):
            if abs(p[0] - q[0]) <= tol and abs(p[1] - q[1]) <= tol and abs(p[2] - q[2]) <= tol:
                return i
        return -1
    vid = {v: i for i, v in enumerate(d[1])}
    want_e = set()
    want_f = set()
    for f in d[2]:
        want_f.add(frozenset(vid[v] for v in f))
        for i in range(len(f)):
            want_e.add(frozenset((vid[f[i]], vid[f[(i + 1) % len(f)]])))
    got_e = set(frozenset((idx((float(s.start_point.x), float(s.start_point.y), float(s.start_point.z))),
                           idx((float(s.end_point.x), float(s.end_point.y), float(s.end_point.z))))) for s in ph.segment_set)
    got_f = set(frozenset(idx((float(p.x), float(p.y), float(p.z))) for p in f.points) for f in ph.convex_polygons)
    if got_e != want_e:
        mu.fail(key + ":edge-set", "segment_set has %d edges, the body has %d" % (len(got_e), len(want_e)))
    elif got_f != want_f or len(ph.convex_polygons) != len(d[2]):
        mu.fail(key + ":face-set", "faces differ from the body's (%d vs %d)" % (len(ph.convex_polygons), len(d[2])))


def judge(case):
    G = load()
    mu = core.Multi()
    k = case["k"]
    if k == "PG":
        d = case["d"]
        vs = d[1]
        order = case["order"]
        m = len(vs)
        mu.cell("polygon:%d" % m)
        if case.get("exh"):
            mu.cell("polygon:exhaustive-perms")
        if len(order) > m:
            mu.cell("polygon:duplicates")
        hv = case.get("hv")
        shift = K.mul(tuple(F(c) for c in hv), -1) if hv else (0, 0, 0)
        pts = tuple(G.Point(*[float(c) for c in K.add(vs[i], shift)]) for i in order)
        if case.get("rev"):
            mu.cell("polygon:constructed-with-reverse=True")
            pg, exc, imp = M.call(lambda p: G.ConvexPolygon(p, reverse=True), pts)
        else:
            pg, exc, imp = M.call(lambda p: G.ConvexPolygon(p), pts)
        if exc is not None:
            mu.fail("PG:ctor-raises-" + M.classify_exc(exc), "ConvexPolygon(valid convex vertices) raised %s: %s" % (type(exc).__name__, exc))
            return mu.result()
        if imp:
            mu.fail("PG:ctor-modifies-arguments", imp)
        if hv:
            # history: negate and hash first, then move the polygon into place; the canonical form
            # (and what -p returns) must be that of the moved polygon
            mu.cell("polygon:negated-then-moved")
            try:
                for _n in range(case.get("negrecv", 0)):
                    pg = -pg
                    mu.cell("polygon:receiver-is-a-negation")
                q0 = -pg
                hash(pg), hash(q0), pg == q0
                ret = pg.move(G.Vector(*[float(c) for c in hv]))
            except Exception as e:
                mu.fail("PG:history-raises-" + type(e).__name__, "negate / hash / move raised %r" % e)
                return mu.result()
            # the polygon returned by move is the moved polygon, orientation included
            _check_polygon(G, mu, ret, [K.fl(v) for v in vs], "PG:returned-by-move")
            if mu.viol is None:
                n_r, n_p = tuple(float(c) for c in ret.plane.n), tuple(float(c) for c in pg.plane.n)
                if K.norm(K.sub(n_r, n_p)) > 1e-9:
                    mu.fail("PG:returned-by-move:normal-differs-from-the-receiver's", "move() returned a polygon with normal %r, the moved receiver has %r" % (n_r, n_p))
            # the negation taken before the move stays where it was, a valid polygon of its own
            _check_polygon(G, mu, q0, [K.fl(K.add(v, shift)) for v in vs], "PG:negation-taken-before-the-original-moved")
        _check_polygon(G, mu, pg, [K.fl(v) for v in vs], "PG")
        return mu.result()
    if k == "PH":
        d = case["d"]
        mu.cell("polyhedron", "body:" + gen.family_of(d))
        if case.get("exh"):
            mu.cell("polyhedron:exhaustive-orientations")
        h9 = case.get("h9")
        if h9 == "second-body-from-the-same-face-objects-moved-away":
            # the caller builds two polyhedra from the same face objects (in two orders) and moves the second away:
            # the first one, and the caller's own polygons, must stay what and where they are
            mu.cell("history:" + h9)
            polys = _faces(G, d[2], case["forder"], case["flips"], case["rots"])
            before = [M.snap(pg) for pg in polys]
            ph, exc, _ = M.call(lambda: G.ConvexPolyhedron(tuple(polys)), pure=False)
            if exc is None:
                try:
                    ph2 = G.ConvexPolyhedron(tuple(polys[i] for i in case["fo2"]))
                    ph2.move(G.Vector(*[float(c) for c in case["w"]]))
                except Exception as e:
                    mu.fail("PH:history-raises-" + type(e).__name__, "second body from the same faces / its move raised %r" % e)
                    return mu.result()
                for b4, pg in zip(before, polys):
                    df = M.snap_diff(b4, M.snap(pg))
                    if df:
                        mu.fail("PH:callers-faces-changed", "a polygon handed to ConvexPolyhedron was changed by moving the polyhedron: %s" % (df,))
                        break
        elif h9 == "rebuilt-from-its-own-faces-moved-into-place":
            # a body is built elsewhere; copies of ITS faces (as the polyhedron oriented them) are moved into place one by
            # one and a new body is built from them
            import copy as _copy
            from ..desc import translate
            mu.cell("history:" + h9)
            w = tuple(F(c) for c in case["w"])
            d0 = translate(d, K.mul(w, -1))
            try:
                ph0 = build_polyhedron(G, d0[2], case["forder"], case["flips"], case["rots"], float)
                faces = [_copy.deepcopy(f) for f in ph0.convex_polygons]
                for f in faces:
                    f.move(G.Vector(*[float(c) for c in w]))
            except Exception as e:
                mu.fail("PH:history-raises-" + type(e).__name__, "building elsewhere / moving the faces raised %r" % e)
                return mu.result()
            for f in faces:
                bad = M.invariants(f)
                if bad:
                    mu.fail("PH:moved-face-invariant", "a face copied from a polyhedron and moved: %s" % bad[0])
                    return mu.result()
            faces = [faces[i] for i in case["fo2"]]
            ph, exc, _ = M.call(lambda: G.ConvexPolyhedron(tuple(faces)), pure=False)
        else:
            ph, exc, _ = M.call(lambda: build_polyhedron(G, d[2], case["forder"], case["flips"], case["rots"], float), pure=False)
        if exc is not None:
            mu.fail("PH:ctor-raises-" + M.classify_exc(exc), "ConvexPolyhedron(valid closed faces) raised %s: %s" % (type(exc).__name__, exc))
            return mu.result()
        _check_polyhedron(G, mu, ph, d, "PH")
        return mu.result()
    if k == "STACK":
        mu.cell("polyhedron:face-object-reused-in-the-neighbour")
        base, h1, h2 = case["base"], case["h1"], case["h2"]
        lowd = K.hull3d(list(base[1]) + [K.add(v, h1) for v in base[1]])
        mid = [K.add(v, h1) for v in base[1]]
        upd = K.hull3d(mid + [K.add(v, h2) for v in mid])
        if lowd is None or upd is None or not gen.ok_coords(upd, 64, 40):
            return core.not_admitted("degenerate-stack")
        r = random.Random(case["ss"])
        low = lift(lowd, r)
        shared = None
        midset = set(mid)
        for f in low.convex_polygons:
            if {tuple(F(c) for c in (p.x, p.y, p.z)) for p in f.points} == midset:
                shared = f
        if shared is None:
            return core.not_admitted("shared-face-not-found")
        faces = []
        for f in upd[2]:
            if set(f) == midset:
                faces.append(shared)                      # the object owned by the lower prism
            else:
                faces.append(G.ConvexPolygon(tuple(G.Point(*[float(c) for c in v]) for v in f)))
        r.shuffle(faces)
        ph, exc, _ = M.call(lambda fs: G.ConvexPolyhedron(tuple(fs)), faces, pure=False)
        if exc is not None:
            mu.fail("STACK:ctor-raises-" + M.classify_exc(exc), "a closed prism built with a face object taken from the neighbouring prism raised %s: %s" % (type(exc).__name__, exc))
        else:
            _check_polyhedron(G, mu, ph, upd, "STACK")
            bad = M.invariants(low)
            if bad:
                mu.fail("STACK:neighbour-damaged", "the polyhedron the face was taken from is no longer valid: " + bad[0])
        return mu.result()
    # fed back library outputs
    a, b = case["a"], case["b"]
    exp = K.inter(a, b)
    if not core.admitted():
        return core.not_admitted("margin")
    if exp is None or exp[0] not in ("PGS", "PHS"):
        return core.not_admitted("result-not-a-body")
    try:
        x, y = C.lift_pair(case)
    except Exception as e:
        # building a valid polygon / polyhedron (any vertex order, points with a past, faces in any orientation) failed
        mu.fail("valid-operand-rejected:" + M.classify_exc(e), "constructing valid operands %s / %s raised %s: %s" % (C.show_short(a, 100), C.show_short(b, 100), type(e).__name__, e))
        return mu.result()
    res, exc, _ = M.call(G.intersection, x, y)
    if exc is not None or res is None or M.kind(res) != C.kname(exp):
        return core.not_admitted("intersection-itself-off (C03's business)")
    r = random.Random(case["ss"])
    if M.kind(res) == "PG":
        mu.cell("fed-back:PG")
        _diag["fed_back_polygons"] += 1
        raw = [(float(p.x), float(p.y), float(p.z)) for p in res.points]
        pts = [G.Point(*c) for c in raw]
        r.shuffle(pts)
        if r.random() < 0.3:
            pts.append(r.choice(pts))
        pg, exc, _ = M.call(lambda p: G.ConvexPolygon(tuple(p)), pts, pure=False)
        if exc is not None:
            mu.fail("fed-back:PG:ctor-raises-" + M.classify_exc(exc), "ConvexPolygon(vertices of an intersection result) raised %r" % exc)
        else:
            _check_polygon(G, mu, pg, raw, "fed-back:PG")
        return mu.result()
    mu.cell("fed-back:PH")
    _diag["fed_back_polyhedra"] += 1
    body = K.as_body(exp)
    faces = []
    for f in res.convex_polygons:
        pts = [G.Point(float(p.x), float(p.y), float(p.z)) for p in f.points]
        r.shuffle(pts)
        faces.append(pts)
    r.shuffle(faces)
    ph, exc, _ = M.call(lambda fs: G.ConvexPolyhedron(tuple(G.ConvexPolygon(tuple(f)) for f in fs)), faces, pure=False)
    if exc is not None:
        mu.fail("fed-back:PH:ctor-raises-" + M.classify_exc(exc), "rebuilding an intersection result from its own faces raised %s: %s" % (type(exc).__name__, exc))
    else:
        _check_polyhedron(G, mu, ph, body, "fed-back:PH")
    return mu.result()


def worker_report():
    return dict(_diag)


def describe(case):
    return {k: (C.show_short(v, 200) if isinstance(v, tuple) else v) for k, v in case.items()}
