"""C16 - solve returns genuine solutions of the linear system."""
import itertools
import random
from fractions import Fraction as F

from .. import kernel as K
from .. import monitor as M
from .. import core
from ..lib import load

ID = "C16"
HASH_ADMISSION = False
EXHAUSTIVE = True
BUDGET = {"quick": 1, "thorough": 1}
SOFT = {"quick": 80, "thorough": 560}
MAX_WORKERS = 16
RULE = ("bounded-exhaustive enumeration of augmented matrices: quick = 1x3, 1x4, 2x3 over {-2..2} and 2x4, 3x3 over {-1,0,1}; "
        "thorough = 1x3, 1x4, 2x3, 2x4, 3x3 over {-2..2} and 3x4 over {-1,0,1}; every matrix with Fraction entries and "
        "additionally int / float entries on a third of them, plus sampled 3x4 over {-2..2} (half with forced zero columns); reference = exact rational rank of A and [A|b]; each consistent system "
        "is called with three free-parameter tuples and every original equation is re-evaluated; non-trivial = every matrix "
        "except the all-zero one; distinct by (matrix, entry type)")
SHAPES_Q = [(1, 3, 2), (1, 4, 2), (2, 3, 2), (2, 4, 1), (3, 3, 1)]
SHAPES_T = [(1, 3, 2), (1, 4, 2), (2, 3, 2), (2, 4, 2), (3, 3, 2), (3, 4, 1)]
REQUIRED_FUNCS = ("solve", "gaussian_elimination", "find_pivot_row", "Solution.__call__", "Solution.__bool__")
VALUESETS = [(F(0), F(0), F(0)), (F(1), F(-2), F(3)), (F(-1, 2), F(5, 3), F(7))]


def required_cells(tier):
    req = {}
    req["shape:3x4/consistent"] = 100
    req["input:identical-rows-share-one-list"] = 50
    req["entries:wide-range"] = 5000
    req["history:solution-kept-across-another-solve"] = 500
    for r, c, _ in (SHAPES_Q if tier == "quick" else SHAPES_T):
        for st in ("consistent", "inconsistent"):
            req["shape:%dx%d/%s" % (r, c, st)] = 2
        req["shape:%dx%d/zero-leading-column" % (r, c)] = 2
        req["shape:%dx%d/rank-deficient-consistent" % (r, c)] = 1
    for t in ("Fraction", "int", "float", "mixed"):
        req["type:" + t] = 100
    req["input:rows-are-tuples"] = 300
    return req


def cases(rng, budget, widx, nworkers, tier):
    shapes = SHAPES_Q if tier == "quick" else SHAPES_T
    idx = 0
    for r, c, R in shapes:
        vals = list(range(-R, R + 1))
        for flat in itertools.product(vals, repeat=r * c):
            idx += 1
            if idx % nworkers != widx:
                continue
            yield {"m": [list(flat[i * c:(i + 1) * c]) for i in range(r)], "t": "Fraction"}
            if r > 1 and any(flat[i * c:(i + 1) * c] == flat[j * c:(j + 1) * c] for i in range(r) for j in range(i)):
                yield {"m": [list(flat[i * c:(i + 1) * c]) for i in range(r)], "t": "Fraction", "alias": True}
            if idx % 3 == 0:
                yield {"m": [list(flat[i * c:(i + 1) * c]) for i in range(r)], "t": ("int", "float")[(idx // 3) % 2]}
    # sampled systems with larger integer and half-integer entries (non-dyadic pivots: thirds, fifths, sevenths)
    for _ in range((40000 if tier == "thorough" else 10000) // nworkers):
        rws, cls = rng.choice(((2, 3), (2, 4), (3, 3), (3, 4), (3, 4)))
        big = rng.choice((3, 5, 7))
        if rng.random() < 0.35:
            m = [[rng.randint(-2 * big, 2 * big) / 2.0 for _ in range(cls)] for _ in range(rws)]
            yield {"m": m, "t": "float", "sampled": "wide"}
        else:
            m = [[rng.randint(-big, big) for _ in range(cls)] for _ in range(rws)]
            c_ = {"m": m, "t": rng.choice(("int", "int", "float", "Fraction", "mixed")), "sampled": "wide", "tuples": rng.random() < 0.15}
            if rng.random() < 0.25:
                # a solution of another system of the same shape is obtained first and kept; it is asked again after this one
                c_["prev"] = [[rng.randint(-big, big) for _ in range(cls)] for _ in range(rws)]
            yield c_
    # sampled 3x4 systems, half of them with zero columns forced (where pivots have to skip columns)
    for _ in range((20000 if tier == "thorough" else 12000) // nworkers):
        m = [[rng.randint(-2, 2) for _ in range(4)] for _ in range(3)]
        if rng.random() < 0.5:
            for c in rng.sample(range(3), rng.randint(1, 2)):
                for row in m:
                    row[c] = 0
        yield {"m": m, "t": rng.choice(("Fraction", "int", "float")), "sampled": True}


def _alias(rows):
    """identical rows become the same list object (callers often write [[1, 1, 2]] * 2)"""
    seen = {}
    out = []
    for r in rows:
        key = tuple(r)
        out.append(seen.setdefault(key, r))
    return out


def _conv(m, t):
    if t == "mixed":
        # ints, with every third entry a float (the same numbers: the entries are integers or dyadic)
        return [[(float(x) if (i + 2 * j) % 3 == 0 else (int(x) if x == int(x) else float(x))) for j, x in enumerate(row)] for i, row in enumerate(m)]
    if t == "Fraction":
        return [[F(x) for x in row] for row in m]
    if t == "float":
        return [[float(x) for x in row] for row in m]
    return [[int(x) for x in row] for row in m]


def _profile(m, n):
    """'regular' when the pivot columns of exact elimination are 0..r-1, else 'pivot-column-skipped'"""
    rows = [[F(x) for x in r] for r in m]
    piv = []
    rank = 0
    for c in range(n):
        p = None
        for r in range(rank, len(rows)):
            if rows[r][c] != 0:
                p = r
                break
        if p is None:
            continue
        rows[rank], rows[p] = rows[p], rows[rank]
        for r in range(rank + 1, len(rows)):
            if rows[r][c] != 0:
                f = rows[r][c] / rows[rank][c]
                rows[r] = [x - f * y for x, y in zip(rows[r], rows[rank])]
        piv.append(c)
        rank += 1
        if rank == len(rows):
            break
    return "regular" if piv == list(range(len(piv))) else "pivot-column-skipped"


def judge(case):
    G = load()
    m, t = case["m"], case["t"]
    nrows, ncols = len(m), len(m[0])
    n = ncols - 1
    rA = K.rref_rank(m, n)
    rAb = K.rref_rank(m, ncols)
    consistent = rA == rAb
    mu = core.Multi()
    shape = "%dx%d" % (nrows, ncols)
    mu.cell("shape:%s/%s" % (shape, "consistent" if consistent else "inconsistent"), "type:" + t)
    if case.get("sampled") == "wide":
        mu.cell("entries:wide-range")
    if all(row[0] == 0 for row in m) and any(any(x != 0 for x in row) for row in m):
        mu.cell("shape:%s/zero-leading-column" % shape)
    if consistent and rA < min(nrows, n):
        mu.cell("shape:%s/rank-deficient-consistent" % shape)
    prof = _profile(m, n)
    nontrivial = any(any(x != 0 for x in row) for row in m)
    rows = _conv(m, t)
    if case.get("tuples"):
        rows = [tuple(r_) for r_ in rows]       # equations handed over as tuples
        mu.cell("input:rows-are-tuples")
    if case.get("alias"):
        rows = _alias(rows)
        if len(set(map(id, rows))) < len(rows):
            mu.cell("input:identical-rows-share-one-list")
    kept = None
    if case.get("prev"):
        try:
            s0 = G.solve(_conv(case["prev"], t))
            a0 = [F(1, 2) if t == "Fraction" else 0.5] * (s0.varargs if bool(s0) else 0)
            kept = (s0, bool(s0), s0.varargs if bool(s0) else None, s0(*a0) if bool(s0) else None, a0)
        except Exception:
            kept = None
    sol, exc, _ = M.call(G.solve, rows, pure=False)
    if exc is not None:
        mu.fail("solve-raises-%s/%s" % (M.classify_exc(exc), prof), "solve(%r) raised %s: %s" % (m, type(exc).__name__, exc))
        return mu.result(nontrivial=nontrivial)
    if kept is not None:
        mu.cell("history:solution-kept-across-another-solve")
        s0, b0, v0, r0, a0 = kept
        try:
            now = (bool(s0), s0.varargs if bool(s0) else None, s0(*a0) if bool(s0) else None)
        except Exception as e:
            now = ("raises", repr(e), None)
        if now != (b0, v0, r0):
            mu.fail("kept-solution-changed-by-a-later-solve/%s" % prof, "solve(%r) gave (solvable, free, value) = %r; after solve(%r) the same Solution object says %r" % (
                case["prev"], (b0, v0, r0), m, now))
            return mu.result(nontrivial=nontrivial)
    try:
        truth = bool(sol)
    except Exception as e:
        mu.fail("bool-raises/%s" % prof, "bool(solve(%r)) raised %r" % (m, e))
        return mu.result(nontrivial=nontrivial)
    try:
        again = [bool(sol), bool(sol)]
    except Exception as e:
        again = ["raises %r" % e]
    if any(a != truth for a in again):
        mu.fail("truth-value-changes-when-asked-again/%s" % prof, "bool(solve(%r)) was %s, then %r" % (m, truth, again))
        return mu.result(nontrivial=nontrivial)
    if truth != consistent:
        mu.fail("solvable-flag-wrong/%s" % prof, "bool(solve(%r)) is %s but rank A=%d, rank [A|b]=%d" % (m, truth, rA, rAb))
        return mu.result(nontrivial=nontrivial)
    if not consistent:
        return mu.result(nontrivial=nontrivial, outcome="inconsistent")
    if sol.varargs != n - rA:
        mu.fail("varargs-wrong/%s" % prof, "solve(%r).varargs = %r, expected %d unknowns - rank %d" % (m, sol.varargs, n, rA))
        return mu.result(nontrivial=nontrivial)
    if bool(sol.exact) != (n - rA == 0):
        mu.fail("exact-flag-wrong/%s" % prof, "solve(%r).exact = %r with %d free parameters" % (m, sol.exact, n - rA))
    k = n - rA
    for vs in VALUESETS:
        args = [x if t == "Fraction" else (float(x) if t == "float" else (int(x) if x.denominator == 1 else float(x))) for x in vs[:k]]
        # a fresh solution object per call: the call must not depend on earlier calls
        res, exc, _ = M.call(lambda *a: sol(*a), *args, pure=False)
        if exc is not None:
            mu.fail("call-raises-%s/%s" % (M.classify_exc(exc), prof), "solve(%r)(%s) raised %s: %s" % (m, args, type(exc).__name__, exc))
            break
        if not isinstance(res, tuple) or len(res) != n:
            mu.fail("call-result-shape/%s" % prof, "solve(%r)(%s) returned %r" % (m, args, res))
            break
        if any(x is None or isinstance(x, bool) or not isinstance(x, (int, float, F)) for x in res):
            mu.fail("call-result-not-numbers/%s" % prof, "solve(%r)(%s) returned %r" % (m, args, res))
            break
        bad = None
        for row in m:
            if t == "Fraction":
                lhs = sum(F(row[j]) * res[j] for j in range(n))
                if lhs != row[-1]:
                    bad = (row, lhs)
            else:
                lhs = sum(float(row[j]) * float(res[j]) for j in range(n))
                if abs(lhs - row[-1]) > 1e-9 * max(1.0, max(abs(float(x)) for x in res)):
                    bad = (row, lhs)
        if bad:
            mu.fail("solution-violates-equation/%s" % prof, "solve(%r)(%s) = %r does not satisfy row %r (lhs %r)" % (m, args, res, bad[0], bad[1]))
            break
        if k == 0:
            break
    return mu.result(nontrivial=nontrivial, outcome="consistent, %d free" % k)


def describe(case):
    return {"matrix": case["m"], "entry_type": case["t"], "identical_rows_aliased": bool(case.get("alias"))}
