"""C12 - intersection obeys the algebra of set intersection."""
import random
from fractions import Fraction as F

from .. import kernel as K
from .. import monitor as M
from .. import core, gen
from ..desc import lift, lower, same_set
from ..lib import load
from . import common as C
from .c05 import PAIRS as IN_PAIRS

ID = "C12"
BUDGET = {"quick": 20000, "thorough": 240000}
SOFT = {"quick": 85, "thorough": 570}
RULE = ("all 343 ordered kind triples cycled; b is built through feature points of a and c through feature points of the exact "
        "a∩b (or of a / b), so that non-empty triple intersections are frequent, plus random operands; judged: "
        "intersection(a,a)~a, a⊆b ⇒ intersection(a,b)~a (exact containment, supported pairs), every vertex/endpoint of "
        "intersection(a,b) is `in` a and `in` b, and (a∩b)∩c ~ a∩(b∩c) on the library's own intermediate outputs (None "
        "absorbing); admission uses the margins of all four exact intermediate/final intersections; the exact a∩b∩c is recorded "
        "as third opinion and names which nesting is wrong; distinct by content hash")
TRIPLES = [(a, b, c) for a in gen.KINDS for b in gen.KINDS for c in gen.KINDS]
IN_SET = set(IN_PAIRS)
REQUIRED_FUNCS = ("intersection",)
_diag = {"nonempty_triple": 0, "assoc_compared": 0, "idempotent_checked": 0, "subset_law_checked": 0, "vertex_membership_checked": 0,
         "wrong_nesting_left": 0, "wrong_nesting_right": 0}


def required_cells(tier):
    q = tier == "quick"
    req = {}
    for t in TRIPLES:
        req["triple:%s,%s,%s" % t] = 2 if q else 25
    req["assoc:nonempty"] = 300 if q else 5000
    req["body:more-than-10-faces-vs-line"] = 30 if q else 500
    req["law:idempotent"] = 1000 if q else 10000
    req["law:subset"] = 150 if q else 2500
    req["law:vertices-in-both"] = 500 if q else 8000
    for hc in ("used-then-moved/receiver", "used-then-moved/returned", "moved/receiver"):
        req["pose:history/" + hc] = 30
    return req


def cases(rng, budget, widx, nworkers, tier):
    sm = lambda: tier == "quick" or rng.random() < 0.5      # thorough: half of the bodies from the full families (prisms, bipyramids, general hulls)
    i = widx
    while True:
        ka, kb, kc = TRIPLES[i % 343]
        i += 1
        a = gen.rand_obj(rng, ka, small=sm())
        if ka == "PH" and "L" in (kb, kc) and rng.random() < 0.25:
            a = gen.big_prism(rng) or a        # many-faced body (12 faces) against a line
        r = rng.random()
        b = gen.targeted(rng, kb, a) if r < 0.8 else gen.rand_obj(rng, kb, small=sm())
        if ka == "PH" and kb == "PH" and rng.random() < 0.3:
            inner = gen.feature_points(a).get("interior", [])
            if inner:
                b2 = gen._scale_about(a, rng.choice(inner), rng.choice((F(1, 4), F(1, 2), F(1, 8))))
                if gen.ok_coords(b2, 64):
                    a, b = (a, b2) if rng.random() < 0.7 else (b2, a)      # strictly nested, off-centre, no surface contact
        elif ka in ("PG", "PH") and kb in ("PG", "PH") and rng.random() < (0.5 if ka == kb == "PH" else 0.25):
            (a, b), _lab = gen.body_pair(rng, ka, kb, small=True)      # labelled relative positions incl. strictly nested / small integer boxes
        if ka == "PL" and kb == "PL" and rng.random() < 0.15:
            pp = gen.slab_plane_pair(rng)          # parallel planes at Hesse offsets -1 and -2 (hash-alike)
            if pp is not None:
                a, b = pp
        if (ka in gen.FLAT) != (kb in gen.FLAT) and rng.random() < 0.06:
            # hits / section ends at a coordinate -1 against -2 (the values CPython hashes alike)
            f_, body_ = (ka, kb) if ka in gen.FLAT else (kb, ka)
            x = gen.slab_flat_vs_body(rng, f_, body_)
            if x is not None:
                a, b = x if ka in gen.FLAT else (x[1], x[0])
        K.reset()
        try:
            ab = K.as_body(K.inter(a, b))
        except Exception:
            ab = None
        c = None
        if ab is not None and rng.random() < 0.75:
            try:
                c = gen.targeted(rng, kc, ab)
                if not gen.ok_coords(c):
                    c = None
            except Exception:
                c = None
        if c is None:
            c = gen.targeted(rng, kc, rng.choice((a, b))) if rng.random() < 0.7 else gen.rand_obj(rng, kc, small=sm())
        yield C.maybe_hist({"a": a, "b": b, "c": c, "ls": rng.getrandbits(30)}, rng, p=0.12, nops=3)


def _verts(res):
    k = M.kind(res)
    if k == "P":
        return [res]
    if k == "S":
        return [res.start_point, res.end_point]
    if k == "H":
        return [res.point]
    if k == "PG":
        return list(res.points)
    if k == "PH":
        return list(res.point_set)
    return []


def judge(case):
    G = load()
    a, b, c = case["a"], case["b"], case["c"]
    ka, kb, kc = a[0], b[0], c[0]
    # exact side: all four intermediates, their margins decide admission
    ab = K.inter(a, b)
    bc = K.inter(b, c)
    abb = K.as_body(ab)
    bcb = K.as_body(bc)
    left = K.inter(abb, c) if abb is not None else None
    right = K.inter(a, bcb) if bcb is not None else None
    if not core.admitted():
        return core.not_admitted("margin")
    sl, _ = same_set(_fl(left), right) if (left is None) == (right is None) else (False, "")
    if not sl:
        raise AssertionError("oracle itself is not associative on this case")
    mu = core.Multi()
    mu.cell("triple:%s,%s,%s" % (ka, kb, kc))
    if "L" in (ka, kb, kc) and any(d[0] == "PH" and len(d[2]) > 10 for d in (a, b, c)):
        mu.cell("body:more-than-10-faces-vs-line")
    r = random.Random(case["ls"])
    h = case.get("hist")
    A, B, Cc = [C.lift_via_history(d, h, r) if (h and h["who"] == i) else lift(d, r) for i, d in enumerate((a, b, c))]
    mu.cell(*C.hist_cell(case))
    key = "%s,%s,%s" % (ka, kb, kc)
    # idempotence
    res, exc, imp = M.call(G.intersection, A, A)
    mu.cell("law:idempotent")
    _diag["idempotent_checked"] += 1
    if exc is not None:
        mu.fail("idempotent:%s:raises-%s" % (ka, M.classify_exc(exc)), "intersection(a,a) raised %s: %s" % (type(exc).__name__, exc))
    else:
        same, why = same_set(lower(res), a)
        if not same:
            mu.fail("idempotent:%s:differs" % ka, "intersection(a,a) is not a: %s" % why)
    # a∩b and the two laws about it
    rab, exc, _ = M.call(G.intersection, A, B)
    if exc is not None:
        mu.fail("pair:%s,%s:raises-%s" % (ka, kb, M.classify_exc(exc)), "intersection(a,b) raised %s: %s" % (type(exc).__name__, exc))
        return mu.result()
    if (ka, kb) in IN_SET:
        saved = (K.ST.margin, K.ST.decisions)
        sub = K.subset(a, b)
        K.ST.margin, K.ST.decisions = saved
        if sub:
            mu.cell("law:subset")
            _diag["subset_law_checked"] += 1
            same, why = same_set(lower(rab), a)
            if not same:
                mu.fail("subset-law:%s,%s" % (ka, kb), "a is contained in b but intersection(a,b) is not a: %s" % why)
    if rab is not None:
        mu.cell("law:vertices-in-both")
        for v in _verts(rab):
            _diag["vertex_membership_checked"] += 1
            for nm, o in (("a", A), ("b", B)):
                if M.kind(o) == "P":
                    r1, e1, _ = M.call(lambda x, y: x == y, v, o)
                else:
                    r1, e1, _ = M.call(lambda x, y: x in y, v, o)
                if e1 is not None or not r1:
                    mu.fail("result-vertex-not-in-operand:%s,%s" % (ka, kb), "a vertex %r of intersection(a,b) is not in %s (%r)" % (v, nm, e1 or r1))
                    break
    # associativity on the library's own outputs
    rbc, exc, _ = M.call(G.intersection, B, Cc)
    if exc is not None:
        mu.fail("pair:%s,%s:raises-%s" % (kb, kc, M.classify_exc(exc)), "intersection(b,c) raised %s: %s" % (type(exc).__name__, exc))
        return mu.result()
    L, e1, _ = M.call(G.intersection, rab, Cc)
    R, e2, _ = M.call(G.intersection, A, rbc)
    if e1 is not None or e2 is not None:
        e = e1 or e2
        side = "left" if e1 is not None else "right"
        mu.fail("assoc:%s:%s-nesting-raises-%s" % (key, side, M.classify_exc(e)),
                "%s raised %s: %s" % ("intersection(intersection(a,b),c)" if e1 is not None else "intersection(a,intersection(b,c))", type(e).__name__, e))
        return mu.result()
    _diag["assoc_compared"] += 1
    if left is not None:
        mu.cell("assoc:nonempty")
        _diag["nonempty_triple"] += 1
    same, why = same_set(lower(L), lower(R))
    if not same:
        okl, _ = same_set(lower(L), left)
        okr, _ = same_set(lower(R), left)
        wrong = "left" if (okr and not okl) else ("right" if (okl and not okr) else "both-or-unknown")
        if wrong == "left":
            _diag["wrong_nesting_left"] += 1
        elif wrong == "right":
            _diag["wrong_nesting_right"] += 1
        mu.fail("assoc:%s:nestings-differ(%s-wrong)" % (key, wrong),
                "(a∩b)∩c and a∩(b∩c) denote different sets (%s); exact a∩b∩c = %s; the %s nesting disagrees with it" % (
                    why, C.show_short(left, 160), wrong))
    return mu.result(outcome=C.show_short(left, 100))


def _fl(d):
    return None if d is None else (d[0] if d[0] not in ("PGS", "PHS") else {"PGS": "PG", "PHS": "PH"}[d[0]],) + tuple(
        (tuple(K.fl(v) for v in x) if isinstance(x, tuple) and x and isinstance(x[0], tuple) else K.fl(x)) for x in d[1:])


def worker_report():
    return dict(_diag)


def describe(case):
    return {"a": C.show_short(case["a"], 160), "b": C.show_short(case["b"], 160), "c": C.show_short(case["c"], 160)}
