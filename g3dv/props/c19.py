"""C19 - tolerance is uniform and follows set_eps / set_sig_figures."""
import math
import random
from fractions import Fraction as F

from .. import kernel as K
from .. import monitor as M
from .. import core, gen
from ..lib import load

ID = "C19"
PRELUDE_EVERY = 0    # this workload owns the process-global tolerance; no prelude cases
HASH_ADMISSION = False       # the catalogue keeps every hashed quantity >= 7% of a step from a boundary by construction
BUDGET = {"quick": 4800, "thorough": 128000}
SOFT = {"quick": 70, "thorough": 560}
RULE = ("random setter histories (set_eps / set_sig_figures with and without argument, powers of ten 1e-12..1e-5 and "
        "non-power-of-ten values) with the eps/sig-figures relation checked after every call; then at the final setting E a "
        "catalogue object (8 kinds x axis / (1,2,2)-/(2,3,6)-Pythagorean frames, coordinates multiples of 1/8) is compared "
        "with a copy whose one defining coordinate is perturbed by E/1000 or E/100 (==, hash, mutual membership, coincident "
        "intersection) and, for Point/Vector, by 4E (must be unequal); finally the previous setting is restored and the first "
        "scenario re-evaluated; a scenario whose realised float perturbation is 0 or off by more than an ulp is not judged; "
        "distinct by content hash")
KINDS = ("P", "VEC", "L", "PL", "S", "H", "PG", "PH", "PLG", "PGR")      # PLG: a Plane given in general form a x + b y + c z = d; PGR: a polygon whose vertex list is a closed ring (first vertex repeated at the end)
FRAMES = {
    "axis": ((1, 0, 0), (0, 1, 0), (0, 0, 1)),
    "axis-perm": ((0, 0, 1), (1, 0, 0), (0, 1, 0)),
    "pyth3": ((1, 2, 2), (2, 1, -2), (2, -2, 1)),
    "pyth3b": ((2, -2, 1), (1, 2, 2), (2, 1, -2)),
    "pyth7": ((2, 3, 6), (3, -6, 2), (6, 2, -3)),
    "pyth7b": ((6, 2, -3), (2, 3, 6), (3, -6, 2)),
    # directions / normals whose LEADING component is zero: a perturbation of that component (far below the tolerance in
    # force, possibly above the default one) must not decide anything, e.g. the sign convention of a hashed direction
    "axis-perm2": ((0, 1, 0), (0, 0, 1), (1, 0, 0)),
    "yz-pyth": ((0, 3, 4), (0, -4, 3), (5, 0, 0)),
    "yz-pyth-b": ((5, 0, 0), (0, -4, 3), (0, 3, 4)),
}
EXPS = list(range(5, 13))
REQUIRED_FUNCS = ("set_eps", "set_sig_figures", "get_eps", "get_sig_figures", "Line.__hash__", "Plane.__hash__",
                  "ConvexPolygon.__hash__", "ConvexPolyhedron.__hash__", "Point.__hash__", "Vector.__hash__")
_diag = {"trivial_perturbations": 0, "history_steps": 0, "decisive_scenarios": 0}
_sites_decisive = {}


def required_cells(tier):
    req = {}
    q = tier == "quick"
    for k in KINDS:
        for e in EXPS:
            req["kind:%s/E=1e-%d" % (k, e)] = 3 if q else 60
    for f in FRAMES:
        req["frame:" + f] = 50
    req["coordinates:Fraction-with-a-float-perturbation"] = 50
    req["general-form:perturbed-coefficient-was-zero"] = 30
    req["general-form:perturbed-coefficient-was-non-zero"] = 30
    req["history:nonpower"] = 50
    req["history:noarg"] = 50
    req["clause:4E-unequal"] = 100
    req["clause:restore"] = 100
    req["history:objects-used-under-another-eps-first"] = 100
    req["history:object-built-before-the-tolerance-change"] = 100
    req["history:builder-call"] = 300
    return req


def setup():
    M.install_eps_spies()


def cases(rng, budget, widx, nworkers, tier):
    i = widx
    while True:
        i += 1
        hist = []
        for _ in range(rng.randint(0, 4)):
            r = rng.random()
            if r < 0.3:
                hist.append(["set_eps", "1e-%d" % rng.choice(EXPS)])
            elif r < 0.55:
                hist.append(["set_sig_figures", rng.choice(EXPS)])
            elif r < 0.7:
                hist.append(["set_eps", None])
            elif r < 0.8:
                hist.append(["set_sig_figures", None])
            elif r < 0.9:
                hist.append(["build", rng.choice(("Circle", "Cylinder", "Cone", "Sphere", "Parallelepiped"))])
            else:
                m = rng.choice((2, 3, 4, 5, 6, 7, 8, 9))
                e = rng.choice(EXPS)
                hist.append(["set_eps", "%de-%d" % (m, e)])
        e = EXPS[i % len(EXPS)]
        final = ["set_eps", "1e-%d" % e] if rng.random() < 0.5 else ["set_sig_figures", e]
        kind = KINDS[(i // len(EXPS)) % len(KINDS)]
        yield {"hist": hist, "final": final, "E": e, "kind": kind, "frame": rng.choice(list(FRAMES)),
               "o": [rng.randint(-16, 16) for _ in range(3)], "which": rng.randint(0, 50), "axis": rng.randint(0, 2),
               "div": rng.choice((1000, 1000, 100)), "sign": rng.choice((1, -1)), "pretouch": rng.random() < 0.4, "early": rng.random() < 0.3,
               "build_after": rng.choice((None, None, None, "Circle", "Cylinder", "Cone", "Sphere")), "vscale": rng.choice((1, 1, 0.5, 1.5, 2.5))}


# ---- catalogue

def _defpoints(kind):
    """defining points / vectors of the catalogue object in frame coordinates (multiples of the frame vectors)"""
    if kind == "P":
        return [("p", (1, 0, 0))]
    if kind == "VEC":
        return [("v", (1, 1, 0))]
    if kind in ("L", "H"):
        return [("p", (0, 0, 0)), ("v", (1, 0, 0))]
    if kind == "PL":
        return [("p", (0, 0, 0)), ("v", (0, 0, 1))]
    if kind == "S":
        return [("p", (0, 0, 0)), ("p", (1, 0, 0))]
    if kind == "PG":
        return [("p", (0, 0, 0)), ("p", (2, 0, 0)), ("p", (2, 2, 0)), ("p", (0, 2, 0))]
    if kind == "PH":
        return [("p", (a, b, c)) for a in (0, 2) for b in (0, 2) for c in (0, 2)]
    if kind == "PLG":
        return [("g", (0, 0, 1))]
    if kind == "PGR":
        return [("p", (0, 0, 0)), ("p", (2, 0, 0)), ("p", (2, 2, 0)), ("p", (0, 2, 0)), ("p", (0, 0, 0))]
    raise ValueError(kind)


_BOX_FACES = [(0, 1, 3, 2), (4, 5, 7, 6), (0, 1, 5, 4), (2, 3, 7, 6), (0, 2, 6, 4), (1, 3, 7, 5)]


def _build(G, kind, vals):
    P = lambda c: G.Point(c[0], c[1], c[2])
    V = lambda c: G.Vector(c[0], c[1], c[2])
    if kind == "P":
        return P(vals[0])
    if kind == "VEC":
        return V(vals[0])
    if kind == "L":
        return G.Line(P(vals[0]), V(vals[1]))
    if kind == "H":
        return G.HalfLine(P(vals[0]), V(vals[1]))
    if kind == "PL":
        return G.Plane(P(vals[0]), V(vals[1]))
    if kind == "PLG":
        return G.Plane(vals[0][0], vals[0][1], vals[0][2], vals[0][3])
    if kind == "S":
        return G.Segment(P(vals[0]), P(vals[1]))
    if kind in ("PG", "PGR"):
        return G.ConvexPolygon(tuple(P(v) for v in vals))
    return G.ConvexPolyhedron(tuple(G.ConvexPolygon(tuple(P(vals[i]) for i in f)) for f in _BOX_FACES))


def _points_of(G, kind, vals):
    """the points of the object that its twin must contain"""
    if kind == "PLG":
        return [G.Point(*vals[0][4:7])]
    if kind in ("L", "H", "PL"):
        return [G.Point(*vals[0])]
    if kind in ("S", "PG", "PH", "PGR"):
        return [G.Point(*v) for v in vals]
    return []


def _coords(case):
    fr = FRAMES[case["frame"]]
    o = [x / 8.0 for x in case["o"]]
    out = []
    for typ, (a, b, c) in _defpoints(case["kind"]):
        v = [a * fr[0][t] + b * fr[1][t] + c * fr[2][t] for t in range(3)]
        if typ == "g":
            # coefficients (a, b, c) = third frame vector, d = n.o (exact: n integral, o in eighths); the point o rides along
            out.append([float(x) for x in v] + [float(sum(v[t] * o[t] for t in range(3)))] + [float(x) for x in o])
            continue
        if typ == "v" and case["kind"] == "VEC":
            v = [x * case.get("vscale", 1) for x in v]        # half-integer components as well
        if typ == "p":
            v = [o[t] + v[t] for t in range(3)]
        out.append([float(x) for x in v])
    return out


def _apply(G, op):
    name, arg = op
    if name == "build":
        # a shape builder is called between the setter calls: it must leave the configuration alone
        c = G.Point(0.5, -1.25, 2.0)
        if arg == "Circle":
            G.Circle(c, G.Vector(1, 2, 2), 1.5, 6)
        elif arg == "Cylinder":
            G.Cylinder(c, 1.5, G.Vector(1, 2, 2), 5)
        elif arg == "Cone":
            G.Cone(c, 1.5, G.Vector(2, -1, 2), 5)
        elif arg == "Sphere":
            G.Sphere(c, 1.5, 4, 2)
        else:
            G.Parallelepiped(c, G.Vector(1, 0, 0), G.Vector(0, 2, 0), G.Vector(1, 1, 3))
        return None
    fn = getattr(G, name)
    if arg is None:
        fn()
        return (1e-10, 10)
    if name == "set_eps":
        e = float(arg)
        fn(e)
        return (e, round(-math.log10(e)))
    fn(int(arg))
    return (10.0 ** -int(arg), int(arg))


def _evaluate(G, kind, A, B, valsA, valsB):
    """outcome vector of the tolerant-equality clauses for the pair (A, B)"""
    out = {}
    out["eq"] = bool(A == B) and bool(B == A)
    out["ne"] = (not (A != B)) and (not (B != A))
    if kind != "VEC" or True:
        try:
            out["hash"] = hash(A) == hash(B)
        except Exception as e:
            out["hash"] = "raises %s" % type(e).__name__
    if kind not in ("P", "VEC"):
        ok = True
        for p in _points_of(G, kind, valsB):
            if not (p in A):
                ok = False
        for p in _points_of(G, kind, valsA):
            if not (p in B):
                ok = False
        out["contains"] = ok
        try:
            r = G.intersection(A, B)
            out["coincident"] = (r is not None) and (M.kind(r) == {"PLG": "PL", "PGR": "PG"}.get(kind, kind)) and bool(r == A)
        except Exception as e:
            out["coincident"] = "raises %s: %s" % (type(e).__name__, e)
    elif kind == "P":
        r = G.intersection(A, B)
        out["coincident"] = r is not None
    return out


def judge(case):
    G = load()
    mu = core.Multi()
    try:
        G.set_eps()
        if G.get_eps() != 1e-10 or G.get_sig_figures() != 10:
            mu.fail("defaults-wrong", "after set_eps(): eps=%r sig=%r" % (G.get_eps(), G.get_sig_figures()))
        prev = (1e-10, 10)
        kind = case["kind"]
        early = None
        if case.get("early"):
            # the unperturbed object already exists (built and used under the default tolerance)
            # when the tolerance is changed: it must behave like one built afterwards
            early = _build(G, kind, _coords(case))
            try:
                hash(early), early == early
                for p_ in _points_of(G, kind, _coords(case))[:2]:
                    p_ in early
            except Exception:
                pass
        for op in case["hist"] + [case["final"]]:
            prev_before = prev
            want = _apply(G, op)
            _diag["history_steps"] += 1
            ge, gs = G.get_eps(), G.get_sig_figures()
            if want is None:
                mu.cell("history:builder-call")
                if abs(ge - prev[0]) > 1e-9 * prev[0] or gs != prev[1]:
                    mu.fail("builder-changes-configuration/%s" % op[1], "after %s(...) get_eps()=%r, get_sig_figures()=%r; they were %r, %r" % (op[1], ge, gs, prev[0], prev[1]))
                continue
            if op[1] is None:
                mu.cell("history:noarg")
                if ge != 1e-10 or gs != 10:
                    mu.fail("noarg-setter-not-default/%s" % op[0], "%s() gave eps=%r sig=%r" % (op[0], ge, gs))
            elif not str(op[1]).startswith("1e") and op[0] == "set_eps":
                mu.cell("history:nonpower")
            if abs(ge - want[0]) > 1e-9 * want[0]:
                mu.fail("eps-not-set/%s" % op[0], "%s(%s): get_eps()=%r expected %r" % (op[0], op[1], ge, want[0]))
            if gs != round(-math.log10(ge)):
                mu.fail("sig-eps-inconsistent/%s" % op[0], "after %s(%s): sig=%r but eps=%r" % (op[0], op[1], gs, ge))
            prev = want
        if case.get("build_after"):
            _apply(G, ["build", case["build_after"]])
            mu.cell("history:builder-call")
            ge, gs = G.get_eps(), G.get_sig_figures()
            if abs(ge - prev[0]) > 1e-9 * prev[0] or gs != prev[1]:
                mu.fail("builder-changes-configuration/%s" % case["build_after"], "after %s(...) get_eps()=%r, get_sig_figures()=%r; they were %r, %r" % (case["build_after"], ge, gs, prev[0], prev[1]))
        E = 10.0 ** -case["E"]
        kind = case["kind"]
        mu.cell("kind:%s/E=1e-%d" % (kind, case["E"]), "frame:" + case["frame"])
        vals = _coords(case)
        which = case["which"] % len(vals)
        ax = case["axis"]
        if kind == "PLG":
            ax = case["which"] % 4           # one of the coefficients a, b, c, d
            mu.cell("general-form:perturbed-coefficient-was-%s" % ("zero" if vals[0][ax] == 0 else "non-zero"))
        delta = case["sign"] * E / case["div"]
        valsB = [list(v) for v in vals]
        valsB[which][ax] = vals[which][ax] + delta
        realised = valsB[which][ax] - vals[which][ax]
        if realised == 0 or abs(realised - delta) > abs(delta) * 0.05:
            _diag["trivial_perturbations"] += 1
            return core.not_admitted("trivial-perturbation")
        if kind in ("P", "VEC") and case.get("which", 0) % 5 == 2 and early is None:
            # the catalogue coordinates as exact rationals (eighths), the perturbed coordinate as the float it is
            from fractions import Fraction as _Fr
            mu.cell("coordinates:Fraction-with-a-float-perturbation")
            fr = lambda row: [_Fr(x) for x in row]
            vals = [fr(v) for v in vals]
            valsB = [[(_Fr(x) if (i, j) != (which, ax) else x) for j, x in enumerate(row)] for i, row in enumerate(valsB)]
            case["_frac"] = True
        A = early if early is not None else _build(G, kind, vals)
        if early is not None:
            mu.cell("history:object-built-before-the-tolerance-change")
        B = _build(G, kind, valsB)
        if case.get("pretouch"):
            # the same instances are first compared / hashed under the default tolerance: what they
            # answer afterwards under E must not remember that
            mu.cell("history:objects-used-under-another-eps-first")
            cur_final = case["final"]
            G.set_eps(1e-10)
            _evaluate(G, kind, A, B, vals, valsB)
            _apply(G, cur_final)
        out = _evaluate(G, kind, A, B, vals, valsB)
        # a second pair built under E but never compared or hashed there (used for the restore clause)
        twin = None
        if kind != "PH" or case["which"] % 3 == 0:
            twin = (_build(G, kind, vals), _build(G, kind, valsB))
        tag = "%s/E<=1e-10" % kind if case["E"] >= 10 else "%s/E>1e-10" % kind
        for clause, v in out.items():
            if v is not True:
                mu.fail("within-eps:%s-fails:%s" % (clause, tag),
                        "at eps=1e-%d two %s objects whose coordinate %d of defining item %d differs by %.3g: %s is %r" % (
                            case["E"], kind, ax, which, realised, clause, v))
        # Points / Vectors 4 eps apart must be unequal
        if kind in ("P", "VEC"):
            mu.cell("clause:4E-unequal")
            valsC = [list(v) for v in vals]
            valsC[which][ax] = float(vals[which][ax]) + 4 * E * case["sign"]
            if abs((valsC[which][ax] - float(vals[which][ax])) - 4 * E * case["sign"]) < 0.3 * E:
                Cc = _build(G, kind, valsC)
                if A == Cc or Cc == A:
                    mu.fail("beyond-eps:equal:%s" % kind, "at eps=1e-%d two %ss 4*eps apart compare equal" % (case["E"], kind))
        # restore the previous setting: behaviour there must be what it was
        mu.cell("clause:restore")
        G.set_eps(1e-10)
        base = _evaluate(G, kind, A, B, vals, valsB)
        G.set_eps(E) if case["final"][0] == "set_eps" else G.set_sig_figures(case["E"])
        again = _evaluate(G, kind, A, B, vals, valsB)
        G.set_eps(1e-10)
        base2 = _evaluate(G, kind, A, B, vals, valsB)
        fresh = _evaluate(G, kind, twin[0], twin[1], vals, valsB) if twin is not None else base
        if base != fresh:
            mu.fail("restore:behaviour-depends-on-earlier-setting:%s" % kind,
                    "after restoring eps=1e-10 objects that were compared at eps=1e-%d answer %r, identical objects never used there %r" % (case["E"], base, fresh))
        if again != out:
            mu.fail("restore:not-reproducible:%s" % kind, "same setting, different outcome: %r then %r" % (out, again))
        if base != base2:
            mu.fail("restore:default-behaviour-changed:%s" % kind, "default-eps outcome %r then %r" % (base, base2))
        if base != out:
            _diag["decisive_scenarios"] += 1
        return mu.result(outcome=str(out))
    finally:
        G.set_eps()


def worker_report():
    sites = {"%s %s:%d" % k: v for k, v in M.ST.eps_sites.items()}
    return {"diag": dict(_diag), "tolerance_read_sites": sites}


def describe(case):
    return dict(case)
