"""C17 - Plane and Line forms round-trip to the same object."""
import itertools
import math
import random
from fractions import Fraction as F

from .. import kernel as K
from .. import monitor as M
from .. import core, gen
from ..desc import lift, lower, same_set
from ..lib import load
from . import common as C

ID = "C17"
SENTINEL = True      # prelude cases (factory objects used and moved) are judged by the global-state sentinel here
EXHAUSTIVE = True
BUDGET = {"quick": 1, "thorough": 1}
SOFT = {"quick": 80, "thorough": 560}
RULE = ("exhaustive: every general form (a,b,c,d) over {-3..3}^4 with (a,b,c)!=0 (2394) and every normal / direction with "
        "|c|<=3 (342) through lattice points; thorough adds 200k random lattice planes and lines; per plane: general_form, "
        "point_normal and parametric round trips, membership of exact / displaced points, three-point form, negation; per "
        "line: the three constructor forms pairwise and parametric(); non-trivial = every case; distinct by content hash")
REQUIRED_FUNCS = ("Plane.general_form", "Plane.point_normal", "Plane.parametric", "Plane._init_gf", "Plane._init_pn",
                  "Plane.__neg__", "Line.parametric", "solve")


def required_cells(tier):
    req = {"kind:general-form": 2300, "kind:plane": 320, "kind:line": 320}     # (a few cases may be set aside by the hash-boundary flag)
    for z in ("x", "y", "z", "xy", "xz", "yz", "none"):
        req["zero-pattern:" + z] = 10
    req["negative-leading"] = 100
    req["history:forms-after-derived-planes-moved"] = 50
    req["line:support-equals-direction"] = 300
    req["plane:three-points-two-of-which-hash-alike"] = 300
    req["line:Fraction-coordinates"] = 50
    req["plane:normal-components-up-to-5"] = 250 if tier == "quick" else 900
    return req


def _dirs(R):
    rg = range(-R, R + 1)
    return [(F(a), F(b), F(c)) for a in rg for b in rg for c in rg if (a, b, c) != (0, 0, 0)]


def cases(rng, budget, widx, nworkers, tier):
    idx = 0
    for a, b, c, d in itertools.product(range(-3, 4), repeat=4):
        if (a, b, c) == (0, 0, 0):
            continue
        idx += 1
        if idx % nworkers == widx:
            yield {"k": "gf", "abcd": [a, b, c, d]}
    for n in _dirs(3):
        idx += 1
        if idx % nworkers == widx:
            yield {"k": "plane", "p": gen.rpt(rng), "n": n, "ls": idx}
            yield {"k": "line", "p": gen.rpt(rng), "d": n, "ls": idx}
            yield {"k": "line", "p": n, "d": n, "ls": idx, "special": "support-equals-direction"}
    # three-point planes two of whose points differ only in a coordinate -1 against -2 (CPython hashes those alike)
    for _ in range(40 if tier == "quick" else 400):
        c = rng.randrange(3)
        u, w = rng.choice((0, 1)), rng.choice((0, 1))
        A, B = gen.slab_pt(c, -2, u, w), gen.slab_pt(c, -1, u, w)
        if rng.random() < 0.3:
            A, B = gen.slab_pt(c, -2, -1, w), gen.slab_pt(c, -1, -2, w)
        Cp = gen.rpt(rng, 3, (1, 1, 2))
        n = K.cross(K.sub(B, A), K.sub(Cp, A))
        if n == (0, 0, 0):
            continue
        tri = [A, B, Cp]
        rng.shuffle(tri)
        yield {"k": "plane", "p": tri[0], "n": gen._reduce(n), "ls": rng.getrandbits(30), "tri": tri}
    # wider normals / directions (|c| <= 5: pivots that are thirds, fifths, sevenths), sampled in quick, all in thorough
    wide = [n for n in _dirs(5) if max(abs(c) for c in n) > 3]
    for j, n in enumerate(wide):
        idx += 1
        if idx % nworkers == widx and (tier == "thorough" or j % 3 == rng.randrange(3)):
            yield {"k": "plane", "p": gen.rpt(rng), "n": n, "ls": idx, "wide": True}
    if tier == "thorough":
        for _ in range(200000 // nworkers):
            yield {"k": "plane", "p": gen.rpt(rng, 8), "n": gen.rdir(rng, 4), "ls": rng.getrandbits(30)}
            yield {"k": "line", "p": gen.rpt(rng, 8), "d": gen.rdir(rng, 4), "ls": rng.getrandbits(30)}


def _zp(n):
    z = "".join(ax for ax, c in zip("xyz", n) if c == 0)
    return z or "none"


def _plane_eq(mu, G, tag, Q, Pobj, pd, key):
    """Q must denote the plane pd (descriptor) and compare == with Pobj"""
    if M.kind(Q) != "PL":
        mu.fail(key + ":not-a-plane", "%s produced %r" % (tag, Q))
        return
    bad = M.invariants(Q)
    if bad:
        mu.fail(key + ":malformed", "%s: %s" % (tag, bad[0]))
        return
    same, why = same_set(lower(Q), pd)
    if not same:
        mu.fail(key + ":different-plane", "%s denotes another plane (%s): %s" % (tag, why, C.show_short(lower(Q))))
        return
    r, exc, _ = M.call(lambda a, b: a == b, Q, Pobj)
    if exc is not None or not r:
        mu.fail(key + ":not-==", "%s is not == the original plane (%r)" % (tag, exc or r))


def _judge_plane(G, mu, Pobj, pd, key):
    n = pd[2]
    # general form
    res, exc, imp = M.call(lambda p: p.general_form(), Pobj)
    if exc is not None:
        mu.fail(key + ":general_form-raises-" + M.classify_exc(exc), "general_form() raised %r" % exc)
    else:
        if imp:
            mu.fail(key + ":general_form-modifies-the-plane", "general_form() changed the plane: " + imp)
        Q, exc, _ = M.call(lambda t: G.Plane(*t), res, pure=False)
        if exc is not None:
            mu.fail("%s:Plane(*general_form)-raises-%s/zero-%s" % (key, M.classify_exc(exc), _zp(n)),
                    "Plane(*P.general_form()) raised %s: %s for normal %s" % (type(exc).__name__, exc, C.show_short(n)))
        else:
            _plane_eq(mu, G, "Plane(*P.general_form())", Q, Pobj, pd, key + ":general-form-roundtrip")
    # point normal
    res, exc, imp = M.call(lambda p: p.point_normal(), Pobj)
    if exc is not None:
        mu.fail(key + ":point_normal-raises-" + M.classify_exc(exc), "point_normal() raised %r" % exc)
    else:
        if imp:
            mu.fail(key + ":point_normal-modifies-the-plane", "point_normal() changed the plane: " + imp)
        Q, exc, _ = M.call(lambda t: G.Plane(G.Point(t[0]), t[1]), res, pure=False)
        if exc is not None:
            mu.fail(key + ":Plane(point_normal)-raises-" + M.classify_exc(exc), "Plane(Point(p), n) raised %r" % exc)
        else:
            _plane_eq(mu, G, "Plane(Point(p), n)", Q, Pobj, pd, key + ":point-normal-roundtrip")
    # parametric
    res, exc, imp = M.call(lambda p: p.parametric(), Pobj)
    if exc is None and (imp or len(getattr(Pobj.n, "_v", [0, 0, 0])) != 3):
        mu.fail(key + ":parametric-modifies-the-plane", "parametric() changed the plane: %s" % (imp or "normal has %d components" % len(Pobj.n._v)))
    if exc is not None:
        mu.fail("%s:parametric-raises-%s/zero-%s" % (key, M.classify_exc(exc), _zp(n)),
                "P.parametric() raised %s: %s for normal %s" % (type(exc).__name__, exc, C.show_short(n)))
    else:
        try:
            u, v, w = res
            vf, wf, nf = [tuple(float(c) for c in t) for t in (v, w, Pobj.n)]
            cr = K.cross(vf, wf)
            big = max(K.norm(vf), K.norm(wf))
            if not (big < 1e6):
                mu.fail(key + ":parametric-vectors-huge/zero-" + _zp(n), "parametric() returned a spanning vector of length %.3g: %r, %r" % (big, v, w))
            elif K.norm(cr) <= 1e-3:
                mu.fail(key + ":parametric-dependent-vectors/zero-" + _zp(n), "parametric() vectors %r, %r are not independent" % (v, w))
            elif abs(K.dot(vf, nf)) > 1e-9 * max(1.0, K.norm(vf)) or abs(K.dot(wf, nf)) > 1e-9 * max(1.0, K.norm(wf)):
                mu.fail(key + ":parametric-vectors-off-plane/zero-" + _zp(n), "parametric() vectors %r, %r are not parallel to the plane" % (v, w))
            else:
                Q, exc, _ = M.call(lambda t: G.Plane(G.Point(t[0]), t[1], t[2]), res, pure=False)
                if exc is not None:
                    mu.fail(key + ":Plane(parametric)-raises-" + M.classify_exc(exc), "Plane(Point(u), v, w) raised %r" % exc)
                else:
                    _plane_eq(mu, G, "Plane(Point(u), v, w)", Q, Pobj, pd, key + ":parametric-roundtrip")
                    # u + v, u + w and u + 2v - w are points of P
                    uf = tuple(float(c) for c in u)
                    for a_, b_ in ((1, 0), (0, 1), (2, -1)):
                        x_ = tuple(uf[t] + a_ * vf[t] + b_ * wf[t] for t in range(3))
                        off = K.dot(nf, K.sub(x_, tuple(float(c) for c in (Pobj.p.x, Pobj.p.y, Pobj.p.z))))
                        if abs(off) > 1e-7 * max(1.0, K.norm(x_)) or not (G.Point(*x_) in Pobj):
                            mu.fail(key + ":parametric-point-off-plane/zero-" + _zp(n), "u + %dv + %dw = %r is not a point of the plane (offset %.3g)" % (a_, b_, x_, off))
                            break
        except Exception as e:
            mu.fail(key + ":parametric-malformed", "parametric() returned %r (%s)" % (res, e))
    # negation
    Q, exc, imp = M.call(lambda p: -p, Pobj)
    if exc is not None:
        mu.fail(key + ":neg-raises-" + M.classify_exc(exc), "-P raised %r" % exc)
    else:
        if imp:
            mu.fail(key + ":neg-modifies-operand", imp)
        same, why = same_set(lower(Q), pd)
        if not same:
            mu.fail(key + ":neg-different-plane", "-P denotes another plane: " + why)
        else:
            a, b = tuple(float(c) for c in Q.n), tuple(float(c) for c in Pobj.n)
            if K.norm(K.add(a, b)) > 1e-9:
                mu.fail(key + ":neg-normal-not-opposite", "(-P).n = %r, P.n = %r" % (a, b))


def _members(mu, G, Q, pd, key):
    """three exact points of the plane are `in`, displaced ones are not"""
    p, n = pd[1], pd[2]
    u, v = gen._plane_basis(n)
    pts = [p, K.add(p, u), K.add(p, v), K.add(p, K.add(u, v))]
    off = K.mul(n, F(1, 8))
    for x in pts:
        for q, want in ((x, True), (K.add(x, off), False), (K.sub(x, off), False)):
            r, exc, _ = M.call(lambda a, b: a in b, G.Point(*[float(c) for c in q]), Q)
            if exc is not None:
                mu.fail(key + ":membership-raises-" + M.classify_exc(exc), "Point in Plane raised %r" % exc)
                return
            if bool(r) != want:
                mu.fail(key + ":membership-%s-expected-%s" % (bool(r), want),
                        "point %s in plane through %s normal %s is %r, expected %s" % (C.show_short(q), C.show_short(p), C.show_short(n), r, want))
                return


def judge(case):
    G = load()
    mu = core.Multi()
    k = case["k"]
    if k == "gf":
        a, b, c, d = case["abcd"]
        n = (F(a), F(b), F(c))
        mu.cell("kind:general-form", "zero-pattern:" + _zp(n))
        lead = next(x for x in (a, b, c) if x != 0)
        if lead < 0:
            mu.cell("negative-leading")
        # an exact point of the plane
        nn = K.dot(n, n)
        p = K.mul(n, F(d) / nn)
        pd = ("PL", p, n)
        Q, exc, _ = M.call(lambda: G.Plane(a, b, c, d), pure=False)
        key = "general-form"
        if exc is not None:
            mu.fail("%s:Plane(a,b,c,d)-raises-%s/zero-%s" % (key, M.classify_exc(exc), _zp(n)),
                    "Plane(%d,%d,%d,%d) raised %s: %s" % (a, b, c, d, type(exc).__name__, exc))
            return mu.result()
        if M.kind(Q) != "PL" or M.invariants(Q):
            mu.fail(key + ":malformed", "Plane(%d,%d,%d,%d) is malformed: %s" % (a, b, c, d, M.invariants(Q)))
            return mu.result()
        nf = tuple(float(x) for x in Q.n)
        if K.norm(K.cross(nf, K.fl(n))) / K.norm(K.fl(n)) > 1e-9:
            mu.fail(key + ":normal-not-parallel-to-abc", "Plane(%d,%d,%d,%d).n = %r" % (a, b, c, d, nf))
        _members(mu, G, Q, pd, key)
        if mu.viol is None:
            _judge_plane(G, mu, Q, pd, key)
        return mu.result(outcome="plane ok")
    if k == "plane":
        p, n = case["p"], case["n"]
        pd = ("PL", p, n)
        mu.cell("kind:plane", "zero-pattern:" + _zp(n))
        if case.get("wide"):
            mu.cell("plane:normal-components-up-to-5")
        if next(x for x in n if x != 0) < 0:
            mu.cell("negative-leading")
        r = random.Random(case["ls"])
        Pobj = lift(pd, r)
        key = "plane"
        _members(mu, G, Pobj, pd, key)
        # three-point form contains its points
        u, v = gen._plane_basis(n)
        tri = [p, K.add(p, u), K.add(p, v)]
        if case.get("tri"):
            tri = [tuple(q) for q in case["tri"]]
            mu.cell("plane:three-points-two-of-which-hash-alike")
        pts = [G.Point(*[float(c) for c in q]) for q in tri]
        Q, exc, _ = M.call(lambda a, b, c: G.Plane(a, b, c), *pts)
        if exc is not None:
            mu.fail(key + ":three-point-raises-" + M.classify_exc(exc), "Plane(p1,p2,p3) raised %r" % exc)
        else:
            _plane_eq(mu, G, "Plane(p1,p2,p3)", Q, Pobj, pd, key + ":three-point")
            for q in pts:
                if not (q in Q):
                    mu.fail(key + ":three-point-misses-its-point", "Plane(p1,p2,p3) does not contain %r" % q)
        if mu.viol is None:
            _judge_plane(G, mu, Pobj, pd, key)
        if mu.viol is None and case["ls"] % 3 == 0:
            # history: the forms are read once, then objects that share state with P by design (its negation, the
            # plane returned by an earlier move) are moved; P's forms must describe P as it is now
            mu.cell("history:forms-after-derived-planes-moved")
            try:
                Q = -Pobj
                R = Pobj.move(G.Vector(0.5, -1.0, 2.0))
                for derived, w in ((Q, (1.0, 2.0, -0.5)), (R, (-2.0, 0.25, 1.0))):
                    Pobj.general_form(), hash(Pobj), Pobj.point_normal(), Pobj.parametric()      # read the forms ...
                    derived.move(G.Vector(*w))                                                   # ... then a plane sharing P's point moves
                    now = lower(Pobj)
                    pd_now = ("PL", tuple(F(x) for x in now[1]), n)     # P as it is now (its point may legitimately have moved)
                    _judge_plane(G, mu, Pobj, pd_now, key + ":after-derived-planes-moved")
                    if mu.viol is not None:
                        break
            except Exception as e:
                mu.fail(key + ":history-raises-" + type(e).__name__, "negate / move of derived planes raised %r" % e)
                return mu.result()
        return mu.result(outcome="plane ok")
    # line
    p, d = case["p"], case["d"]
    ld = ("L", p, d)
    mu.cell("kind:line", "zero-pattern:" + _zp(d))
    if case.get("special"):
        mu.cell("line:" + case["special"])
    objs = []
    ntl = float
    if case["ls"] % 4 == 1:
        # exact rationals with a halved / quartered direction (the same line)
        from fractions import Fraction as _Fr
        ntl = _Fr
        ld = ("L", p, K.mul(d, (_Fr(1, 2), _Fr(1, 4), _Fr(3, 2))[(case["ls"] // 4) % 3]))
        mu.cell("line:Fraction-coordinates")
    for f in range(3):
        o, exc, _ = M.call(lambda: lift(ld, None, ntl, form=f), pure=False)
        if exc is not None:
            mu.fail("line:form%d-raises-%s" % (f, M.classify_exc(exc)), "Line form %d raised %r" % (f, exc))
            return mu.result()
        same, why = same_set(lower(o), ld)
        if not same:
            mu.fail("line:form%d-different-line" % f, "Line form %d denotes another line: %s" % (f, why))
        objs.append(o)
    # points p + t d are on the line (every form), displaced ones are not
    for o in objs:
        for t in (0, 1, -2, F(1, 2), 3):
            q = K.add(ld[1], K.mul(ld[2], t))
            Q = G.Point(*[(c if ntl is not float else float(c)) for c in q])
            res, exc, _ = M.call(lambda a, b: a in b, Q, o)
            if exc is not None or res is not True:
                mu.fail("line:misses-its-own-point", "point support + %s * direction is reported %r for the line" % (t, exc or res))
                break
        off = K.add(K.add(ld[1], ld[2]), gen._reduce(K.cross(ld[2], (F(1), F(2), F(-3))) if K.cross(ld[2], (F(1), F(2), F(-3))) != (0, 0, 0) else (F(0), F(0), F(1))))
        res, exc, _ = M.call(lambda a, b: a in b, G.Point(*[float(c) for c in off]), o)
        if exc is None and res is True:
            mu.fail("line:contains-a-displaced-point", "a point off the line is reported on it")
    for i in range(3):
        for j in range(3):
            r, exc, imp = M.call(lambda a, b: a == b, objs[i], objs[j])
            if exc is not None or not r:
                mu.fail("line:forms-not-==", "Line form %d == form %d is %r" % (i, j, exc or r))
    for o in objs:
        res, exc, imp = M.call(lambda l: l.parametric(), o)
        if exc is not None:
            mu.fail("line:parametric-raises-" + M.classify_exc(exc), "Line.parametric() raised %r" % exc)
            continue
        try:
            sv, dv = res
            Q = G.Line(G.Vector(*[c for c in sv]), G.Vector(*[c for c in dv]))
            same, why = same_set(lower(Q), ld)
            if not same or not (Q == o):
                mu.fail("line:parametric-roundtrip", "Line(*L.parametric()) differs from L: %s" % why)
        except Exception as e:
            mu.fail("line:parametric-malformed", "parametric() returned %r (%s)" % (res, e))
    return mu.result(outcome="line ok")


def describe(case):
    return {k: (C.show_short(v) if isinstance(v, tuple) else v) for k, v in case.items()}
