"""C13 - all queries commute with lattice isometries and uniform scaling."""
import itertools
import math
import random
from fractions import Fraction as F

from .. import kernel as K
from .. import monitor as M
from .. import core, gen
from ..desc import lift, lower, same_set, xform
from ..lib import load
from . import common as C

ID = "C13"
BUDGET = {"quick": 32000, "thorough": 640000}
SOFT = {"quick": 85, "thorough": 570}
RULE = ("metamorphic: a case is (base operand pair, T) with T = signed axis permutation (all 48, cycled exhaustively per base "
        "pair family) o lattice translation o scale k in {1/2,1,2,3}; base pairs from the C01-C05/C10/C11 generators over all "
        "49 kind pairs plus Vector pairs; for every applicable query q in {intersection, in, distance, angle, parallel, "
        "orthogonal, ==, length, area, volume}: q(Ta,Tb) must equal T(q(a,b)) (sets mapped, booleans/angles equal, distance x k, "
        "area x k^2, volume x k^3); admission: oracle margin of the base case scaled by min(1,k) and hash-boundary flag on "
        "either side; distinct by content hash")
PERMS = [tuple(zip(p, s)) for p in itertools.permutations(range(3)) for s in itertools.product((1, -1), repeat=3)]
SCALES = (F(1, 2), F(1), F(2), F(3))
PAIRS = [(a, b) for a in gen.KINDS for b in gen.KINDS] + [("VEC", "VEC")]
QUERIES = ("intersection", "in", "distance", "angle", "parallel", "orthogonal", "eq", "measure")
REQUIRED_FUNCS = ("intersection", "distance", "angle", "parallel", "orthogonal", "solve", "gaussian_elimination")
_diag = {"queries_compared": 0, "queries_both_raise": 0}


def required_cells(tier):
    q = tier == "quick"
    req = {}
    for i in range(48):
        req["perm:%d" % i] = 100 if q else 3000
    for k in SCALES:
        req["scale:%s" % k] = 500
    for a, b in PAIRS:
        req["pair:%s,%s" % (a, b)] = 30 if q else 1000
    for qn in QUERIES:
        req["query:" + qn] = 300
    for bn in ("Circle", "Cylinder", "Cone", "Parallelogram", "Parallelepiped"):
        req["builder:" + bn] = 40
    return req


def cases(rng, budget, widx, nworkers, tier):
    sm = lambda: tier == "quick" or rng.random() < 0.5      # thorough: half of the bodies from the full families (prisms, bipyramids, general hulls)
    i = widx
    while True:
        ka, kb = PAIRS[i % len(PAIRS)]
        i += 1
        if i % 11 == 0:
            # shape builders: their measures must scale like everything else, whatever axis they are built along
            bname = rng.choice(("Circle", "Cylinder", "Cone", "Parallelogram", "Parallelepiped"))
            c = gen.rpt(rng, 3, (1, 2))
            if bname in ("Circle", "Cylinder", "Cone"):
                prm = {"axis": gen.rdir(rng, 3), "r": rng.choice((F(1, 2), F(1), F(3, 2), F(2))), "n": rng.choice((3, 4, 5, 6, 8))}
            else:
                while True:
                    vs = [gen.rdir(rng, 2) for _ in range(3)]
                    if K.det3(*vs) != 0:
                        break
                prm = {"vs": vs}
            for pi in rng.sample(range(48), 6):
                t = tuple(F(rng.randint(-8, 8), rng.choice((1, 2, 4))) for _ in range(3))
                yield {"builder": bname, "c": c, "prm": prm, "perm": pi, "t": t, "k": rng.choice(SCALES), "label": "builder"}
            continue
        if ka == "VEC":
            a, b = ("VEC", gen.rdir(rng, 4)), ("VEC", gen.rdir(rng, 4))
            if rng.random() < 0.3:
                b = ("VEC", K.mul(a[1], rng.choice((2, -1, F(1, 2)))))
            label = "vectors"
        else:
            (a, b), label = gen.gen_pair(rng, ka, kb, small=sm())
        if ka == kb and ka != "VEC" and rng.random() < 0.25:
            b = a                   # the same set, lifted through another constructor form / vertex order: == must hold before and after T
            label = "same-object-other-representation"
        heavy = "PH" in (ka, kb)
        perms = rng.sample(range(48), 3 if heavy else 8)
        for pi in perms:
            t = tuple(F(rng.randint(-8, 8), rng.choice((1, 2, 4))) for _ in range(3))
            yield {"a": a, "b": b, "label": label, "ls": rng.getrandbits(30), "perm": pi, "t": t, "k": rng.choice(SCALES)}


def _T_float(M_, t, k):
    tf = K.fl(t)
    kf = float(k)

    def pt(p):
        q = tuple(p[i] * s for i, s in M_)
        return (q[0] * kf + tf[0], q[1] * kf + tf[1], q[2] * kf + tf[2])

    def vec(p):
        q = tuple(p[i] * s for i, s in M_)
        return (q[0] * kf, q[1] * kf, q[2] * kf)
    return pt, vec


def _map_lowered(d, M_, t, k):
    """apply T to a lowered (float) library result"""
    if d is None:
        return None
    pt, vec = _T_float(M_, t, k)
    kd = d[0]
    if kd == "P":
        return ("P", pt(d[1]))
    if kd in ("L", "H", "PL"):
        return (kd, pt(d[1]), vec(d[2]))
    if kd == "S":
        return ("S", pt(d[1]), pt(d[2]))
    if kd == "PG":
        return ("PG", tuple(pt(v) for v in d[1]))
    if kd == "PH":
        return ("PH", tuple(pt(v) for v in d[1]), tuple(tuple(pt(v) for v in f) for f in d[2]))
    return d


def _queries(G, A, B, ka, kb):
    """answers of every applicable query on (A, B): name -> ('obj'|'num'|'bool'|'exc', value)"""
    out = {}

    def run(name, fn):
        r, e, _ = M.call(fn, pure=False)
        if e is not None:
            out[name] = ("exc", type(e).__name__)
        elif name == "intersection":
            out[name] = ("obj", lower(r))
        elif isinstance(r, bool) or name in ("in", "parallel", "orthogonal", "eq"):
            out[name] = ("bool", bool(r) if not isinstance(r, BaseException) else "exc-instance")
        else:
            out[name] = ("num", r)
    if ka != "VEC":
        run("intersection", lambda: G.intersection(A, B))
        if (ka, kb) in _IN:
            run("in", lambda: A in B)
        if ka in ("P", "L", "PL") and kb in ("P", "L", "PL") and not (ka == "PL" and kb == "PL"):
            run("distance", lambda: G.distance(A, B))
        if ka == kb:
            run("eq", lambda: A == B)
        for nm, o in (("measureA", A), ("measureB", B)):
            k = ka if nm == "measureA" else kb
            if k in ("S", "PG", "PH"):
                for mname in ("length", "area", "volume"):
                    if hasattr(o, mname):
                        run("%s.%s" % (nm, mname), lambda o=o, mname=mname: getattr(o, mname)())
    if (ka in ("L", "PL") and kb in ("L", "PL")) or ka == "VEC":
        run("angle", lambda: G.angle(A, B))
        run("parallel", lambda: G.parallel(A, B))
        run("orthogonal", lambda: G.orthogonal(A, B))
    return out


from .c05 import PAIRS as _INP
_IN = set(_INP)


def _lift(d, r):
    if d[0] == "VEC":
        G = load()
        return G.Vector(*[float(c) for c in d[1]])
    return lift(d, r)


def _build(G, bname, c, prm):
    P = G.Point(*[float(x) for x in c])
    V = lambda v: G.Vector(*[float(x) for x in v])
    if bname == "Circle":
        return G.Circle(P, V(prm["axis"]), float(prm["r"]), prm["n"])
    if bname in ("Cylinder", "Cone"):
        return getattr(G, bname)(P, float(prm["r"]), V(prm["axis"]), prm["n"])
    if bname == "Parallelogram":
        return G.Parallelogram(P, V(prm["vs"][0]), V(prm["vs"][1]))
    return G.Parallelepiped(P, *[V(v) for v in prm["vs"]])


def _judge_builder(case):
    G = load()
    M_ = PERMS[case["perm"]]
    t, k = case["t"], F(case["k"])
    bname, c, prm = case["builder"], case["c"], case["prm"]
    mu = core.Multi()
    mu.cell("perm:%d" % case["perm"], "scale:%s" % k, "builder:" + bname, "query:measure")
    tc = xform(("P", c), M_, t, k)[1]
    tprm = dict(prm)
    if "axis" in prm:
        tprm["axis"] = xform(("VEC", prm["axis"]), M_, t, k)[1]
        tprm["r"] = prm["r"] * k
    else:
        tprm["vs"] = [xform(("VEC", v), M_, t, k)[1] for v in prm["vs"]]
    o0, e0, _ = M.call(lambda: _build(G, bname, c, prm), pure=False)
    o1, e1, _ = M.call(lambda: _build(G, bname, tc, tprm), pure=False)
    if (e0 is None) != (e1 is None):
        mu.fail("builder:%s:raises-only-on-one-side" % bname, "%s: base %r, transformed %r (perm %d, k=%s)" % (bname, e0, e1, case["perm"], k))
        return mu.result()
    if e0 is not None:
        return mu.result()
    kf = float(k)
    for name, f in (("length", kf), ("area", kf * kf), ("volume", kf ** 3)):
        if not hasattr(o0, name):
            continue
        _diag["queries_compared"] += 1
        a, b = getattr(o0, name)(), getattr(o1, name)()
        if abs(b - a * f) > 1e-9 * max(1.0, abs(a * f)):
            mu.fail("builder:%s:%s-not-equivariant" % (bname, name), "%s.%s() = %r on the transformed arguments, expected %g x %r (perm %d, k=%s)" % (bname, name, b, f, a, case["perm"], k))
    return mu.result(outcome=bname)


def judge(case):
    if "builder" in case:
        return _judge_builder(case)
    G = load()
    a, b = case["a"], case["b"]
    ka, kb = a[0], b[0]
    M_ = PERMS[case["perm"]]
    t, k = case["t"], F(case["k"])
    if ka != "VEC":
        K.inter(a, b)
        if (ka, kb) in _IN:
            K.subset(a, b)
    if K.margin() * min(1.0, float(k)) < core.MARGIN:
        return core.not_admitted("margin")
    ta, tb = xform(a, M_, t, k), xform(b, M_, t, k)
    if not (gen.ok_coords(ta, 64, 64) and gen.ok_coords(tb, 64, 64)):
        return core.not_admitted("coordinates-out-of-range")
    mu = core.Multi()
    mu.cell("perm:%d" % case["perm"], "scale:%s" % k, "pair:%s,%s" % (ka, kb), "gen:" + case["label"])
    A, B = _lift(a, random.Random(case["ls"])), _lift(b, random.Random(case["ls"] + 1))
    TA, TB = _lift(ta, random.Random(case["ls"])), _lift(tb, random.Random(case["ls"] + 1))
    q0 = _queries(G, A, B, ka, kb)
    q1 = _queries(G, TA, TB, ka, kb)
    kf = float(k)
    key = "%s,%s" % (ka, kb)
    for name, v0 in q0.items():
        v1 = q1.get(name)
        qclass = name.split(".")[0].replace("measureA", "measure").replace("measureB", "measure")
        mu.cell("query:" + qclass)
        _diag["queries_compared"] += 1
        if v0[0] == "exc" or v1[0] == "exc":
            if v0[0] == "exc" and v1[0] == "exc":
                _diag["queries_both_raise"] += 1
                continue
            mu.fail("%s:%s:raises-only-on-one-side" % (key, qclass), "%s: base %r, transformed %r (perm %d, k=%s)" % (name, v0, v1, case["perm"], k))
            continue
        if v0[0] == "obj":
            want = _map_lowered(v0[1], M_, t, k)
            same, why = same_set(v1[1], want, tol=1e-7 * max(1.0, kf))
            if not same:
                mu.fail("%s:intersection:not-equivariant" % key, "intersection(Ta,Tb) != T(intersection(a,b)): %s (perm %d, k=%s, t=%s)" % (why, case["perm"], k, C.show_short(t)))
        elif v0[0] == "bool":
            if v0[1] != v1[1]:
                mu.fail("%s:%s:changes-under-symmetry" % (key, qclass), "%s is %r for (a,b) and %r for (Ta,Tb) (perm %d, k=%s)" % (name, v0[1], v1[1], case["perm"], k))
        else:
            f = 1.0
            if name == "distance" or name.endswith(".length"):
                f = kf
            elif name.endswith(".area"):
                f = kf * kf
            elif name.endswith(".volume"):
                f = kf ** 3
            want = v0[1] * f
            tol = 1e-6 if name == "angle" else 1e-9 * max(1.0, abs(want))
            if abs(v1[1] - want) > tol:
                mu.fail("%s:%s:not-equivariant" % (key, qclass), "%s = %r for (Ta,Tb), expected %r = %g x %r (perm %d)" % (name, v1[1], want, f, v0[1], case["perm"]))
    return mu.result(outcome="%d queries" % len(q0))


def worker_report():
    return dict(_diag)


def describe(case):
    if "builder" in case:
        return {"builder": case["builder"], "centre": C.show_short(case["c"]), "perm": [list(x) for x in PERMS[case["perm"]]], "k": str(case["k"])}
    return {"a": C.show_short(case["a"], 140), "b": C.show_short(case["b"], 140), "perm": [list(x) for x in PERMS[case["perm"]]],
            "t": C.show_short(case["t"]), "k": str(case["k"])}
