"""C05 - membership (`in`) agrees with exact geometric containment."""
import random

from .. import kernel as K
from .. import monitor as M
from .. import core, gen
from ..desc import lift
from ..lib import load
from . import common as C

ID = "C05"
BUDGET = {"quick": 64000, "thorough": 1600000}
SOFT = {"quick": 60, "thorough": 560}
RULE = ("the 18 supported (x-kind, container-kind) pairs cycled; containers as in C01-C03; candidates x are built through "
        "feature points of the container (vertices, edge midpoints, face points, interior, carrier-outside points), displaced "
        "copies of those, sub-objects, partially overlapping and parallel-displaced objects, and random ones; oracle = exact "
        "containment of every point of x; a tenth of the Point questions are two hash-alike lattice points (-1 against -2) asked "
        "one after the other of one container object; non-trivial = admitted; distinct by content hash")
PAIRS = ([("P", s) for s in ("L", "H", "S", "PL", "PG", "PH")] + [("S", s) for s in ("L", "H", "S", "PL", "PG", "PH")] +
         [("H", s) for s in ("L", "H", "PL")] + [("L", "PL"), ("PG", "PL"), ("PG", "PH")])
REQUIRED_FUNCS = ("Line.__contains__", "Plane.__contains__", "Segment.__contains__", "HalfLine.__contains__",
                  "ConvexPolygon.__contains__", "ConvexPolyhedron.__contains__", "Segment.in_", "HalfLine.in_",
                  "ConvexPolygon.in_")


def required_cells(tier):
    q = tier == "quick"
    req = {}
    for a, b in PAIRS:
        for t in ("True", "False"):
            req["pair:%s in %s/%s" % (a, b, t)] = 20 if q else 500
    for loc in ("vertex", "edge", "face", "interior", "outside", "in-plane-outside", "off-plane"):
        req["loc:" + loc] = 50 if q else 1000
    for w in ("container/receiver", "container/returned", "candidate/receiver", "candidate/returned"):
        req["pose:via-move/" + w] = 100 if q else 2000
    for ks in ("L", "H", "S", "PL", "PG", "PH"):
        req["sequence:P in %s/True-then-False" % ks] = 10 if q else 200
        req["sequence:P in %s/False-then-True" % ks] = 10 if q else 200
    return req


def _displaced_container(rng, kx, s):
    """x = a copy of (part of) the container, displaced parallel to itself"""
    if kx in ("S", "H", "L") and s[0] in ("L", "H", "S"):
        p, d, lo, hi = K.one_d(s)
        off = gen.rdir(rng, 1)
        off = K.mul(off, rng.choice((gen.F(1, 4), gen.F(1, 2), 1)))
        if K.cross(off, d) == (0, 0, 0):
            return None
        q = K.add(p, off)
        return {"S": ("S", q, K.add(q, d)), "H": ("H", q, d), "L": ("L", q, d)}[kx]
    if s[0] == "PL" and kx in ("S", "H", "L", "PG"):
        u, v = gen._plane_basis(s[2])
        off = K.mul(gen._reduce(s[2]), rng.choice((gen.F(1, 4), gen.F(1, 2), 1, 0, 0)))
        base = K.add(K.add(s[1], off), K.mul(u, rng.randint(-1, 1)))
        dd = K.add(K.mul(u, rng.randint(-2, 2)), K.mul(v, rng.randint(-2, 2)))
        if dd == (0, 0, 0):
            return None
        if kx == "PG":
            d2 = K.add(K.mul(u, rng.randint(-2, 2)), K.mul(v, rng.randint(-2, 2)))
            if K.cross(dd, d2) == (0, 0, 0):
                return None
            return ("PG", (base, K.add(base, dd), K.add(base, d2)))
        return {"S": ("S", base, K.add(base, dd)), "H": ("H", base, dd), "L": ("L", base, dd)}[kx]
    return None


def _hash_alike_candidates(rng, ks):
    """two lattice points that CPython hashes alike (one coordinate -1 against -2, the others in {0, 1}: hash(-1) ==
    hash(-2), also for their products) and a container of kind ks that holds the first and not the second (or both, or
    neither): both are asked of ONE container object, in either order"""
    F = gen.F
    ax = rng.randrange(3)
    o1, o2 = [a for a in range(3) if a != ax]

    def vec(a, b, c):
        w = [F(0)] * 3
        w[ax], w[o1], w[o2] = F(a), F(b), F(c)
        return tuple(w)
    u, v = rng.randint(0, 1), rng.randint(0, 1)
    p1, p2 = vec(-1, u, v), vec(-2, u, v)
    e = vec(1, 0, 0)
    lo = rng.choice((F(-3, 2), F(-1), F(-5, 4), F(-5, 2), F(-2), F(-1, 2)))       # where the container starts along the axis
    w = rng.choice((vec(0, 1, 0), vec(0, 0, 1), vec(0, 1, 1), vec(0, 1, -1), vec(1, 1, 0), vec(1, 0, 2)))
    if ks == "PH":
        a0, a1 = -rng.randint(0, 1) - F(rng.randint(0, 1), 2), 1 + F(rng.randint(0, 2), 2)
        b0, b1 = -rng.randint(0, 1) - F(rng.randint(0, 1), 2), 1 + F(rng.randint(0, 2), 2)
        s = K.hull3d([vec(x, y, z) for x in (lo, F(2)) for y in (a0, a1) for z in (b0, b1)])
    elif ks == "PG":
        base = vec(lo, u, v)
        far = vec(2, u, v)
        s = ("PG", (K.sub(base, w), K.sub(far, w), K.add(far, w), K.add(base, w)))
    elif ks == "S":
        s = ("S", vec(lo, u, v), vec(2, u, v))
    elif ks == "H":
        s = ("H", vec(lo, u, v), e) if rng.random() < 0.7 else ("H", vec(lo + 1, u, v), K.mul(e, -1))
    elif ks == "L":
        s = ("L", rng.choice((p1, p2)), w if K.cross(w, e) != (0, 0, 0) else vec(0, 1, 0))
    else:
        n = rng.choice((vec(1, 0, 0), vec(1, 1, 0), vec(2, 0, 1), vec(1, -1, 1)))
        s = ("PL", rng.choice((p1, p2)), n)
    if s is None:
        return None
    seq = [p1, p2]
    if rng.random() < 0.5:
        seq.reverse()
    return seq, s


def cases(rng, budget, widx, nworkers, tier):
    gen.SPLIT_FACES[0] = 0.06        # membership must also hold for bodies one of whose faces is given in two coplanar pieces
    i = widx
    while True:
        kx, ks = PAIRS[i % len(PAIRS)]
        i += 1
        if kx == "P" and rng.random() < 0.1:
            hc = _hash_alike_candidates(rng, ks)
            if hc is not None:
                yield {"a": ("P", hc[0][1]), "first": ("P", hc[0][0]), "b": hc[1], "label": "hash-alike-candidates", "ls": rng.getrandbits(30)}
                continue
        s = gen.rand_obj(rng, ks, small=rng.random() < 0.6)
        r = rng.random()
        x = None
        label = "targeted"
        if r < 0.15:
            x = _displaced_container(rng, kx, s)
            label = "parallel-displaced"
        if x is None and r < 0.2 and kx in ("P", "L", "H", "S") and ks in ("L", "H", "S"):
            # candidate and container through one point, directions / offsets that differ only in a coordinate -1 against
            # -2 (not parallel, but the two Vectors hash alike in CPython)
            pr = gen.slab_direction_pair(rng, kx, ks)
            if pr is not None:
                x, s = pr
                label = "hash-alike-directions"
        if x is None and r < 0.85:
            x = gen.targeted(rng, kx, s)
            label = "targeted"
        if x is None:
            x = gen.rand_obj(rng, kx, small=True)
            label = "random"
        if not gen.ok_coords(x):
            continue
        case = {"a": x, "b": s, "label": label, "ls": rng.getrandbits(30)}
        if rng.random() < 0.12:
            # the same pose reached by constructing the object elsewhere and moving it there:
            # `in` must not depend on how an operand got to its position
            v = tuple(gen.F(rng.randint(-8, 8), rng.choice((1, 2, 4))) for _ in range(3))
            if rng.random() < 0.3:
                d = s[2] if s[0] in ("L", "H") else (K.sub(s[2], s[1]) if s[0] == "S" else None)
                if d is not None:
                    v = K.mul(d, rng.choice((1, -1, 2, gen.F(1, 2))))       # along the object's own direction
            case["mv"] = {"v": v, "who": rng.choice(("container", "container", "candidate")), "use": rng.choice(("receiver", "returned"))}
        yield case


def _judge_sequence(case):
    """several candidates asked of ONE container object, one after the other: every answer is the exact one"""
    s = case["b"]
    xs = [case["first"], case["a"]]
    exps = [K.subset(x, s) for x in xs]
    if not core.admitted():
        return core.not_admitted("margin")
    mu = core.Multi()
    ks = s[0]
    mu.cell("gen:" + case["label"], "sequence:P in %s/%s-then-%s" % (ks, exps[0], exps[1]))
    mu.cell("pair:P in %s/%s" % (ks, exps[1]))
    os_ = lift(s, random.Random(case.get("ls", 0)))
    for n, (x, exp) in enumerate(zip(xs, exps)):
        ox = lift(x, None)
        res, exc, impure = M.call(lambda p, q: p in q, ox, os_)
        key = "P-in-%s%s" % (ks, ":second-question-to-one-container" if n else "")
        if exc is not None:
            mu.fail("%s:raises-%s" % (key, M.classify_exc(exc)), "`x in S` raised %s: %s (exact containment %s)" % (type(exc).__name__, exc, exp))
        else:
            if impure:
                mu.fail(key + ":operand-modified", "`x in S` modified an operand: " + impure)
            if bool(res) != exp:
                mu.fail("%s:says-%s-exact-%s" % (key, bool(res), exp), "`x in S` is %r for %s, exact containment is %s%s" % (
                    res, C.show_short(x, 60), exp, "; asked of the same container object just after %s (answer %s)" % (C.show_short(xs[0], 60), exps[0]) if n else ""))
    return mu.result(outcome="%s,%s" % tuple(exps))


def judge(case):
    if case.get("first") is not None:
        return _judge_sequence(case)
    x, s = case["a"], case["b"]
    exp = K.subset(x, s)
    if not core.admitted():
        return core.not_admitted("margin")
    kx, ks = x[0], s[0]
    mu = core.Multi()
    mu.cell("pair:%s in %s/%s" % (kx, ks, exp), "gen:" + case["label"])
    if kx == "P" and ks in ("PG", "PH"):
        mu.cell("loc:" + C.locate_point(s, x[1]))
    elif kx == "P" and ks in ("H", "S"):
        p, d, lo, hi = K.one_d(s)
        if x[1] == p or (ks == "S" and x[1] == s[2]):
            mu.cell("loc:endpoint")
    mv = case.get("mv")
    if mv is None:
        ox, os_ = C.lift_pair(case)
    else:
        from ..desc import translate, lift as _lift
        import random as _r
        G = load()
        r = _r.Random(case.get("ls", 0))
        back = K.mul(mv["v"], -1)
        da, db = (x, translate(s, back)) if mv["who"] == "container" else (translate(x, back), s)
        if not (gen.ok_coords(da, 64, 64) and gen.ok_coords(db, 64, 64)):
            return core.not_admitted("moved-pose-out-of-range")
        ox, os_ = _lift(da, r), _lift(db, r)
        tgt = os_ if mv["who"] == "container" else ox
        if mv.get("touch", True):
            C.touch(tgt, db if mv["who"] == "container" else da)
        try:
            ox in os_          # the same question is asked once before the move (its answer there may differ)
        except Exception:
            pass
        vv = tuple(mv["v"])
        if case.get("ls", 0) % 3 == 0:
            # two moves instead of one, with the same question asked in between
            v1 = tuple(gen.F(int(c * 2) // 2) for c in vv)
            if any(v1) and v1 != vv:
                mu.cell("pose:via-two-moves")
                tgt.move(G.Vector(*[float(c) for c in v1]))
                try:
                    ox in os_
                except Exception:
                    pass
                vv = K.sub(vv, v1)
        ret = tgt.move(G.Vector(*[float(c) for c in vv]))
        if mv["use"] == "returned":
            if mv["who"] == "container":
                os_ = ret
            else:
                ox = ret
        mu.cell("pose:via-move/%s/%s" % (mv["who"], mv["use"]))
    res, exc, impure = M.call(lambda p, q: p in q, ox, os_)
    key = "%s-in-%s" % (kx, ks)
    if exc is not None:
        mu.fail("%s:raises-%s" % (key, M.classify_exc(exc)), "`x in S` raised %s: %s (exact containment %s)" % (type(exc).__name__, exc, exp))
    else:
        if impure:
            mu.fail(key + ":operand-modified", "`x in S` modified an operand: " + impure)
        if bool(res) != exp:
            mu.fail("%s:says-%s-exact-%s" % (key, bool(res), exp), "`x in S` is %r, exact containment is %s" % (res, exp))
    return mu.result(outcome=str(exp))


describe = C.describe_pair
