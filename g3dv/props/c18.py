"""C18 - Vector arithmetic is exact component algebra and preserves numeric type."""
import itertools
import math
import random
from decimal import Decimal
from fractions import Fraction as F

from .. import kernel as K
from .. import monitor as M
from .. import core, gen
from ..lib import load
from ..poly import Poly, Poly2, BranchOnValue

ID = "C18"
SENTINEL = True      # prelude cases (factory objects used and moved) are judged by the global-state sentinel here
HASH_ADMISSION = False
BUDGET = {"quick": 40000, "thorough": 1000000}
SOFT = {"quick": 60, "thorough": 300}
RULE = ("(1) shadow-value execution: indeterminates of a polynomial ring over Q are pushed through the real Vector/Point code "
        "for every operation and compared with the textbook polynomials (the ring type raises on any branch on a value); "
        "(2) the same formulas on random int / Fraction / Decimal / float / ring-valued vectors with exact comparison and "
        "component-type checks, and all 5^3 type mixtures inside one constructor call for the promotion order; (3) length / "
        "normalized / unit / angle / zero / unit vectors on int, float and Fraction vectors of magnitude 1e-6..1e6; "
        "distinct by content hash")
TYPES = ("int", "Fraction", "Decimal", "float", "user")
RANK = {"user": 0, "Fraction": 1, "Decimal": 2, "float": 3, "int": 4}
PYT = {"int": int, "Fraction": F, "Decimal": Decimal, "float": float, "user": Poly, "user2": Poly2}
SHADOW_OPS = ("add", "sub", "mul-scalar", "rmul-scalar", "neg", "dot", "cross", "from-points", "pv", "point-move",
              "id-a.(axb)=0", "id-axb=-(bxa)", "id-lagrange", "index", "vector-from-list")
REQUIRED_FUNCS = ("Vector.__add__", "Vector.__sub__", "Vector.__mul__", "Vector.__rmul__", "Vector.__neg__", "Vector.cross",
                  "Vector.length", "Vector.normalized", "Vector.angle", "Vector.zero", "Point.pv", "Point.move", "unify_types")
_diag = {"poly_ops_observed": 0, "branch_attempts": 0}


def required_cells(tier):
    req = {}
    for op in SHADOW_OPS:
        req["shadow:" + op] = 1
    for t in TYPES + ("user2",):
        req["exact:" + t] = 100
    req["promotion"] = 125
    req["promotion:non-dyadic-float"] = 30
    for t in ("Fraction", "float", "Decimal"):
        req["promotion:after-item-assignment/" + t] = 100
    for t in ("int", "float", "Fraction"):
        req["numeric:" + t] = 200
    for rel in ("generic", "parallel", "antiparallel", "perpendicular"):
        req["numeric-relation:" + rel] = 200
    req["constants"] = 1
    return req


def cases(rng, budget, widx, nworkers, tier):
    for op in SHADOW_OPS:
        yield {"k": "shadow", "op": op}
    yield {"k": "constants"}
    for i, combo in enumerate(itertools.product(TYPES, repeat=3)):
        if i % nworkers == widx:
            yield {"k": "promotion", "types": list(combo), "vals": [rng.randint(-5, 5) for _ in range(3)], "ctor": i % 4}
            if "float" in combo and "user" not in combo:
                yield {"k": "promotion", "types": list(combo), "vals": [rng.randint(-5, 5) for _ in range(3)], "ctor": (i + 1) % 4,
                       "nd": [rng.choice((0.1, 0.3, 0.7, -0.9)) for _ in range(3)]}
    while True:
        r = rng.random()
        if r < 0.04:
            yield {"k": "promotion-after-assignment", "t2": rng.choice(("Fraction", "float", "Decimal")), "i": rng.randrange(3),
                   "vals": [[rng.randint(-9, 9) for _ in range(3)] for _ in range(2)], "s": rng.randint(-7, 7) or 2, "den": rng.choice((2, 4, 5))}
            continue
        if r < 0.4:
            t = rng.choice(TYPES + ("user2",))      # user2: a second user-defined ring type in the same process
            vals = [[rng.randint(-9, 9) for _ in range(3)] for _ in range(2)]
            den = [[rng.randint(1, 6) for _ in range(3)] for _ in range(2)]
            yield {"k": "exact", "t": t, "vals": vals, "den": den, "s": rng.randint(-7, 7), "sd": rng.randint(1, 5)}
        else:
            t = rng.choice(("int", "float", "Fraction"))
            mag = rng.choice((-6, -3, -1, 0, 0, 1, 3, 6))
            if t == "int":
                mag = abs(mag)
            vals = [[rng.randint(-99, 99) for _ in range(3)] for _ in range(2)]
            rel = "generic"
            rr = rng.random()
            if rr < 0.15:
                kk = rng.choice((1, 2, 3, 7))
                vals[1] = [kk * x for x in vals[0]]
                rel = "parallel"
            elif rr < 0.3:
                kk = rng.choice((-1, -2, -3, -7))
                vals[1] = [kk * x for x in vals[0]]
                rel = "antiparallel"
            elif rr < 0.4:
                w = [rng.randint(-9, 9) for _ in range(3)]
                c = K.cross(vals[0], w)
                if any(c):
                    vals[1] = list(c)
                    rel = "perpendicular"
            yield {"k": "numeric", "t": t, "mag": mag, "vals": vals, "rel": rel}


def _mkval(t, n, d=1):
    if t == "int":
        return int(n)
    if t == "Fraction":
        return F(n, d)
    if t == "Decimal":
        return Decimal(n) / Decimal(1 if d in (3, 6) else d) if d in (1, 2, 4, 5) else Decimal(n)
    if t == "float":
        return float(n) / (d if d in (1, 2, 4) else 1)
    if t == "user2":
        return Poly2(F(n, d))
    return Poly(F(n, d))


def _same(a, b):
    if isinstance(a, Poly) or isinstance(b, Poly):
        return Poly(a).same(b) if not isinstance(a, Poly) else a.same(b)
    return a == b


def _comps(v):
    return [v[0], v[1], v[2]]


def _formula(op, a, b, k):
    if op == "add":
        return [a[i] + b[i] for i in range(3)]
    if op == "sub":
        return [a[i] - b[i] for i in range(3)]
    if op in ("mul-scalar", "rmul-scalar"):
        return [a[i] * k for i in range(3)]
    if op == "neg":
        return [a[i] * -1 for i in range(3)]
    if op == "cross":
        return [a[1] * b[2] - a[2] * b[1], a[2] * b[0] - a[0] * b[2], a[0] * b[1] - a[1] * b[0]]
    if op == "dot":
        return a[0] * b[0] + a[1] * b[1] + a[2] * b[2]
    raise ValueError(op)


def _run_ops(G, mu, a, b, k, key, typecheck=None):
    """run every operation on vectors with components a, b and scalar k; compare with the formulas"""
    A, B = G.Vector(*a), G.Vector(*b)

    def chk(op, got, want):
        if isinstance(want, list):
            gc = _comps(got)
            if not all(_same(x, y) for x, y in zip(gc, want)):
                mu.fail("%s:%s:wrong-components" % (key, op), "%s gave %r, textbook %r" % (op, gc, want))
            elif typecheck is not None and any(type(x) is not typecheck for x in gc):
                mu.fail("%s:%s:type-not-preserved" % (key, op), "%s components have types %s, expected %s" % (op, [type(x).__name__ for x in gc], typecheck.__name__))
        else:
            if not _same(got, want):
                mu.fail("%s:%s:wrong-value" % (key, op), "%s gave %r, textbook %r" % (op, got, want))
            elif typecheck is not None and type(got) is not typecheck:
                mu.fail("%s:%s:type-not-preserved" % (key, op), "%s has type %s, expected %s" % (op, type(got).__name__, typecheck.__name__))
    chk("add", A + B, _formula("add", a, b, k))
    chk("sub", A - B, _formula("sub", a, b, k))
    chk("mul-scalar", A * k, _formula("mul-scalar", a, b, k))
    chk("rmul-scalar", k * A, _formula("rmul-scalar", a, b, k))
    chk("neg", -A, _formula("neg", a, b, k))
    chk("dot", A * B, _formula("dot", a, b, k))
    chk("cross", A.cross(B), _formula("cross", a, b, k))
    P1, P2 = G.Point(*a), G.Point(*b)
    chk("from-points", G.Vector(P1, P2), [b[i] - a[i] for i in range(3)])
    chk("pv", P1.pv(), list(a))
    Q = G.Point(*a)
    R = Q.move(G.Vector(*b))
    chk("point-move", R.pv(), [a[i] + b[i] for i in range(3)])
    chk("point-move-receiver", Q.pv(), [a[i] + b[i] for i in range(3)])
    chk("vector-from-list", G.Vector(list(a)), list(a))
    # identities
    C_ = A.cross(B)
    chk("id-a.(axb)=0", A * C_, (a[0] * 0))
    chk("id-axb=-(bxa)", A.cross(B), _comps(-(B.cross(A))))
    lhs = C_ * C_
    rhs = (A * A) * (B * B) - (A * B) * (A * B)
    chk("id-lagrange", lhs, rhs)


def _judge_shadow(G, mu, op):
    a = [Poly.var("a%d" % i) for i in (1, 2, 3)]
    b = [Poly.var("b%d" % i) for i in (1, 2, 3)]
    k = Poly.var("k")
    before = Poly.ops
    mu.cell("shadow:" + op)
    sub = core.Multi()
    try:
        _run_ops(G, sub, a, b, k, "shadow")
    except BranchOnValue as e:
        _diag["branch_attempts"] += 1
        mu.fail("shadow:branch-on-coordinate-value", "the library branched on a coordinate value while running the vector algebra: %s" % e)
        return
    except Exception as e:
        mu.fail("shadow:raises-" + type(e).__name__, "vector algebra on ring elements raised %s: %s" % (type(e).__name__, e))
        return
    _diag["poly_ops_observed"] += Poly.ops - before
    if sub.viol is not None:
        key, what, _ = sub.viol
        # report only the operation this case is about (the others have their own case)
        if (":%s:" % op) in key or op == "index":
            mu.fail(key, what)
    if op == "index":
        V = G.Vector(*a)
        if not (V[0].same(a[0]) and V[1].same(a[1]) and V[2].same(a[2])):
            mu.fail("shadow:index", "Vector.__getitem__ does not return the components")


def judge(case):
    G = load()
    mu = core.Multi()
    k = case["k"]
    if k == "shadow":
        _judge_shadow(G, mu, case["op"])
        return mu.result()
    if k == "constants":
        mu.cell("constants")
        for name, want in (("zero", [0, 0, 0]), ("x_unit_vector", [1, 0, 0]), ("y_unit_vector", [0, 1, 0]), ("z_unit_vector", [0, 0, 1])):
            v = getattr(G.Vector, name)()
            if _comps(v) != want:
                mu.fail("constants:" + name, "Vector.%s() = %r" % (name, _comps(v)))
        for name, want in (("x_unit_vector", [1, 0, 0]), ("y_unit_vector", [0, 1, 0]), ("z_unit_vector", [0, 0, 1])):
            if _comps(getattr(G, name)()) != want:
                mu.fail("constants:module-" + name, "%s() wrong" % name)
        return mu.result()
    if k == "promotion":
        mu.cell("promotion")
        ts, vals = case["types"], case["vals"]
        items = [_mkval(t, v) for t, v in zip(ts, vals)]
        if case.get("nd"):
            # floats that are not dyadic (0.1, 0.3, 2.7): promotion must carry the float's exact value over
            items = [(x + case["nd"][j] if isinstance(x, float) else x) for j, x in enumerate(items)]
            mu.cell("promotion:non-dyadic-float")
        want_t = PYT[min(ts, key=lambda t: RANK[t])]
        ctor = case["ctor"]
        try:
            if ctor == 0:
                o = _comps(G.Vector(*items))
            elif ctor == 1:
                o = _comps(G.Vector(list(items)))
            elif ctor == 2:
                p = G.Point(*items)
                o = [p.x, p.y, p.z]
            else:
                p = G.Point(list(items))
                o = [p.x, p.y, p.z]
        except BranchOnValue as e:
            mu.fail("promotion:branch-on-value", str(e))
            return mu.result()
        except Exception as e:
            mu.fail("promotion:raises-%s/%s" % (type(e).__name__, "+".join(sorted(set(ts)))), "constructing from %r raised %s: %s" % (items, type(e).__name__, e))
            return mu.result()
        if any(type(x) is not want_t for x in o):
            mu.fail("promotion:wrong-type/%s" % "+".join(sorted(set(ts))), "components %r of types %s; expected all %s" % (o, [type(x).__name__ for x in o], want_t.__name__))
        else:
            def exact(z):
                return z if isinstance(z, Poly) else Poly(F(z))
            if not all(exact(x).same(exact(it)) for x, it in zip(o, items)):
                mu.fail("promotion:value-changed", "components %r from items %r: promotion changed a value" % (o, items))
        return mu.result()
    if k == "promotion-after-assignment":
        # an int vector gets ONE component of a more general type by item assignment; the vectors the library then builds
        # from it (sum, difference, multiples, negation, cross product) are vectors like any other: all their components
        # carry the most general type among the components that went in, with the textbook values
        t2 = case["t2"]
        mu.cell("promotion:after-item-assignment/" + t2)
        a, b = list(case["vals"][0]), list(case["vals"][1])
        try:
            A, B = G.Vector(*a), G.Vector(*b)
            val = _mkval(t2, a[case["i"]] * 2 + 1, case["den"] if t2 != "float" else 2)
            A[case["i"]] = val
            a[case["i"]] = val
            kk = case["s"]
            res = {"add": A + B, "sub": A - B, "mul-scalar": A * kk, "rmul-scalar": kk * A, "neg": -A, "cross": A.cross(B), "radd": B + A}
            pa = G.Point(A)
            res_pt = [pa.x, pa.y, pa.z]
        except Exception as e:
            mu.fail("promotion-after-assignment:raises-%s/%s" % (type(e).__name__, t2), "vector algebra after v[i] = %s raised %s: %s" % (t2, type(e).__name__, e))
            return mu.result()
        ex = lambda z: F(z) if not isinstance(z, float) else F(z)
        fa, fb = [ex(x) for x in a], [ex(x) for x in b]
        want = {"add": [x + y for x, y in zip(fa, fb)], "radd": [x + y for x, y in zip(fa, fb)], "sub": [x - y for x, y in zip(fa, fb)],
                "mul-scalar": [x * kk for x in fa], "rmul-scalar": [x * kk for x in fa], "neg": [-x for x in fa],
                "cross": [fa[1] * fb[2] - fa[2] * fb[1], fa[2] * fb[0] - fa[0] * fb[2], fa[0] * fb[1] - fa[1] * fb[0]]}
        if any(type(x) is not PYT[t2] for x in res_pt) or [ex(x) for x in res_pt] != fa:
            mu.fail("promotion-after-assignment:Point(vector):mixed-types/%s" % t2, "Point(v) of a vector with components %r has coordinates %r of types %s" % (
                a, res_pt, [type(x).__name__ for x in res_pt]))
        for op, v in res.items():
            gc = _comps(v)
            if any(type(x) is not PYT[t2] for x in gc):
                mu.fail("promotion-after-assignment:%s:mixed-types/%s" % (op, t2), "%s of a vector with components %r gave component types %s, expected all %s" % (
                    op, a, [type(x).__name__ for x in gc], PYT[t2].__name__))
            elif [ex(x) for x in gc] != want[op]:
                mu.fail("promotion-after-assignment:%s:wrong-components" % op, "%s gave %r, textbook %r" % (op, gc, want[op]))
        return mu.result()
    if k == "exact":
        t = case["t"]
        mu.cell("exact:" + t)
        d = case["den"] if t in ("Fraction", "user", "user2") else [[1, 1, 1], [1, 1, 1]]
        if t == "float":
            d = [[x if x in (1, 2, 4) else 1 for x in row] for row in case["den"]]
        if t == "Decimal":
            d = [[x if x in (1, 2, 4, 5) else 1 for x in row] for row in case["den"]]
        a = [_mkval(t, n, dd) for n, dd in zip(case["vals"][0], d[0])]
        b = [_mkval(t, n, dd) for n, dd in zip(case["vals"][1], d[1])]
        s = _mkval(t, case["s"], case["sd"] if t in ("Fraction", "user", "user2") else 1)
        try:
            _run_ops(G, mu, a, b, s, "exact/" + t, typecheck=PYT[t])
            # a vector built from a caller's list is a value of its own: refilling the list, or editing a second vector
            # built from the same list, leaves it what it was (and the sums / products taken afterwards are the textbook ones)
            buf = list(a)
            v1, v2 = G.Vector(buf), G.Vector(buf)
            buf[0], buf[2] = b[0], b[2]
            v2[1] = b[1]
            if not all(_same(x, y) for x, y in zip(_comps(v1), a)):
                mu.fail("exact/%s:vector-from-list-follows-the-list" % t, "Vector(list) changed to %r after the caller refilled its list / edited another vector built from it (was %r)" % (_comps(v1), a))
            else:
                got = _comps(v1 + G.Vector(*b))
                if not all(_same(x, y) for x, y in zip(got, _formula("add", a, b, s))):
                    mu.fail("exact/%s:add:wrong-components" % t, "sum taken after the list was refilled: %r" % (got,))
        except BranchOnValue as e:
            mu.fail("exact:branch-on-value", str(e))
        except Exception as e:
            mu.fail("exact/%s:raises-%s" % (t, type(e).__name__), "vector algebra on %s components raised %s: %s" % (t, type(e).__name__, e))
        return mu.result()
    # numeric
    t = case["t"]
    mu.cell("numeric:" + t, "numeric-relation:" + case.get("rel", "generic"))
    mag = case["mag"]
    sc = 10 ** mag if mag >= 0 else F(1, 10 ** (-mag))
    vs = []
    for row in case["vals"]:
        if t == "int":
            v = [int(x * sc) for x in row]
        elif t == "Fraction":
            v = [F(x) * sc for x in row]
        else:
            v = [float(x) * float(sc) for x in row]
        vs.append(v)
    a, b = vs
    if all(x == 0 for x in a) or all(x == 0 for x in b):
        return core.not_admitted("zero-vector")
    A, B = G.Vector(*a), G.Vector(*b)
    try:
        ex_len = math.sqrt(float(sum(F(x) * F(x) for x in a)))
        L = A.length()
        if abs(L - ex_len) > 1e-12 * ex_len:
            mu.fail("numeric:length", "length %r, exact %r" % (L, ex_len))
        if abs(abs(A) - L) > 0:
            mu.fail("numeric:abs-differs-from-length", "abs(v) != v.length()")
        for nm in ("normalized", "unit"):
            N = getattr(A, nm)()
            nl = math.sqrt(sum(float(x) ** 2 for x in _comps(N)))
            if abs(nl - 1.0) > 1e-12:
                mu.fail("numeric:%s-not-unit" % nm, "|%s(v)| = %r" % (nm, nl))
            fa = [float(x) for x in a]
            cr = K.cross([float(x) for x in _comps(N)], fa)
            if K.norm(cr) > 1e-9 * ex_len or K.dot([float(x) for x in _comps(N)], fa) <= 0:
                mu.fail("numeric:%s-direction" % nm, "%s(v) not along v" % nm)
        # scaled copies made AFTER the length was asked for must have their own, correct length
        for kk in (-2, -1, 3, -0.5, 2.5):
            for W in (A * kk, kk * A):
                wl = W.length()
                if abs(wl - abs(kk) * ex_len) > 1e-12 * abs(kk) * ex_len:
                    mu.fail("numeric:scaled-copy-length", "(v*%r).length() = %r after v.length() = %r" % (kk, wl, L))
                else:
                    NW = W.normalized()
                    if K.dot([float(x) for x in _comps(NW)], [float(x) * kk for x in a]) <= 0:
                        mu.fail("numeric:scaled-copy-direction", "normalized(v*%r) points against v*%r" % (kk, kk))
        # the component formulas at this magnitude (products of two small numbers are small, not zero)
        exa, exb = [F(x) for x in a], [F(x) for x in b]
        wc = [exa[1] * exb[2] - exa[2] * exb[1], exa[2] * exb[0] - exa[0] * exb[2], exa[0] * exb[1] - exa[1] * exb[0]]
        gc = _comps(A.cross(B))
        scale = float(max(abs(x) for x in exa)) * float(max(abs(x) for x in exb))
        if any(abs(float(g) - float(w)) > 1e-12 * scale for g, w in zip(gc, wc)):
            mu.fail("numeric:cross-wrong-components/magnitude-1e%d" % mag, "cross product %r, textbook %r" % (gc, [float(w) for w in wc]))
        wd = sum(x * y for x, y in zip(exa, exb))
        if abs(float(A * B) - float(wd)) > 1e-12 * scale * 3:
            mu.fail("numeric:dot-wrong/magnitude-1e%d" % mag, "dot product %r, textbook %r" % (A * B, float(wd)))
        ang = A.angle(B)
        c2 = K.cos2([F(x) for x in a], [F(x) for x in b])
        dotp = sum(F(x) * F(y) for x, y in zip(a, b))
        want = math.acos(max(-1.0, min(1.0, math.copysign(math.sqrt(float(c2)), dotp))))
        if not (0.0 <= ang <= math.pi):
            mu.fail("numeric:angle-out-of-range", "angle %r" % ang)
        elif abs(ang - want) > 1e-6:
            mu.fail("numeric:angle-wrong", "angle %r, exact %r" % (ang, want))
    except Exception as e:
        mu.fail("numeric/%s:raises-%s" % (t, type(e).__name__), "%s on %s vector raised: %s" % (type(e).__name__, t, e))
    return mu.result()


def worker_report():
    return dict(_diag)
