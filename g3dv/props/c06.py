"""C06 - length, area and volume equal the exact measures."""
import itertools
import random
from fractions import Fraction as F

from .. import kernel as K
from .. import monitor as M
from .. import core, gen
from ..desc import num
from ..lib import load
from . import common as C

ID = "C06"
BUDGET = {"quick": 18000, "thorough": 320000}
SOFT = {"quick": 60, "thorough": 560}
HASH_ADMISSION = True
RULE = ("segments, convex polygons (3-8 vertices) and closed convex polyhedra (4-10 vertices, 3-6 sided faces) with lattice "
        "vertices; polygons with <=5 vertices in ALL vertex permutations (enumerated), larger ones in sampled permutations; "
        "polyhedra in random face order with every one of the 2^F face-orientation patterns for F<=6 (enumerated) and sampled "
        "beyond; int / float / Fraction coordinates; pyramids from polygon + apex; exact references from rational cross-product / "
        "determinant formulas, relative tolerance 1e-9; distinct by (body, order, orientation, numeric type)")
REQUIRED_FUNCS = ("ConvexPolygon.area", "ConvexPolygon.length", "ConvexPolyhedron.area", "ConvexPolyhedron.length",
                  "ConvexPolyhedron.volume", "Pyramid.height", "Pyramid.volume", "volume", "Segment.length",
                  "get_triangle_area")
NT = {"float": float, "int": int, "Fraction": F}
_diag = {"max_rel_error": 0.0}


def required_cells(tier):
    q = tier == "quick"
    req = {"kind:S": 50, "kind:PY": 50}
    for m in range(3, 9):
        req["kind:PG/%d" % m] = 30 if q else 500
    for t in NT:
        req["nt:" + t] = 100
    for fam in ("tetrahedron", "hexahedron", "pyramid", "prism"):
        req["body:" + fam] = 20 if q else 300
    req["kind:PH"] = 200 if q else 5000
    req["body:with-coplanar-faces"] = 25 if q else 800
    req["pose:via-move"] = 150 if q else 4000
    req["pose:original-after-sibling-moved"] = 50 if q else 1000
    req["pose:endpoints-assigned"] = 20 if q else 400
    req["pose:constructor-arguments-moved-afterwards"] = 50 if q else 1000
    req["pose:base-or-faces-moved-into-place"] = 100 if q else 2000
    req["body:minus1-minus2-slab"] = 30 if q else 600
    req["body:tiny(edges<=1/2)"] = 30 if q else 600
    req["polygon:vertices-on-a-circle-about-their-centroid"] = 30 if q else 600
    req["history:hash-alike-twin-measured-first"] = 30 if q else 600
    req["perm:exhaustive-polygon"] = 100
    req["orient:exhaustive-polyhedron"] = 100
    return req


def _integral(d):
    return all(F(c).denominator == 1 for c in gen.coords_of(d))


def cases(rng, budget, widx, nworkers, tier):
    while True:
        r = rng.random()
        nt = rng.choice(("float", "float", "Fraction", "int"))
        if r < 0.2:
            d = gen.rand_flat(rng, "S")
            if nt == "int" and not _integral(d):
                nt = "float"
            c_ = _with_move({"k": "S", "d": d, "nt": nt}, rng)
            if "mv" not in c_ and rng.random() < 0.2:
                c_["assign"] = True
            yield c_
        elif r < 0.45:
            d = gen.rand_obj(rng, "PG")
            if rng.random() < 0.12:
                d = gen.cyclic_polygon(rng) or d       # all vertices on one circle about their centroid, not regular
            if nt == "int" and not _integral(d):
                nt = "Fraction"
            m = len(d[1])
            if m <= 5 and rng.random() < 0.5:
                perms = list(itertools.permutations(range(m)))
                for p in perms:
                    yield {"k": "PG", "d": d, "nt": nt, "order": list(p), "exh": True}
            else:
                for _ in range(4):
                    p = list(range(m))
                    rng.shuffle(p)
                    yield _with_move({"k": "PG", "d": d, "nt": nt, "order": p}, rng)
        elif r < 0.7:
            d = gen.rand_obj(rng, "PG")
            if rng.random() < 0.12:
                d = gen.cyclic_polygon(rng) or d
            n = K.polygon_normal(d[1])
            apex = gen.rpt(rng, 4, (1, 2))
            if K.dot(n, K.sub(apex, d[1][0])) == 0:
                continue
            if nt == "int" and not (_integral(d) and _integral(("P", apex))):
                nt = "float"
            c_ = {"k": "PY", "d": d, "apex": apex, "nt": nt}
            if rng.random() < 0.3:
                c_["premove"] = [rng.randint(-6, 6) for _ in range(3)]
            yield c_
        else:
            d = gen.rand_polyhedron(rng, small=rng.random() < 0.3)
            if rng.random() < 0.3:
                d = gen.slab_body(rng, wide=rng.random() < 0.3)[1]       # parallel faces at a coordinate -1 and -2 (hash alike)
                if rng.random() < 0.7:
                    # ... or a pair of bodies / polygons differing in one coordinate -1 against -2: the first is measured first
                    kk = rng.choice(("PG", "PH"))
                    t1, t2 = gen.slab_twins(rng, kk)
                    if rng.random() < 0.5:
                        t1, t2 = t2, t1
                    if kk == "PG":
                        yield {"k": "PG", "d": t2, "nt": nt if nt != "int" else "float", "order": list(range(len(t2[1]))), "twin": t1}
                        continue
                    d = t2
                    nf = len(d[2])
                    yield {"k": "PH", "d": d, "nt": nt, "forder": list(range(nf)), "flips": 0, "rots": [0] * nf, "twin": t1, "slab": True}
                    continue
                nf = len(d[2])
                fo = list(range(nf))
                rng.shuffle(fo)
                yield {"k": "PH", "d": d, "nt": nt, "forder": fo, "flips": rng.getrandbits(nf), "rots": [rng.randrange(6) for _ in range(nf)], "slab": True}
                continue
            if rng.random() < 0.3:
                # a very small body (edges of length 1/4 .. 1/2): relative accuracy must not depend on the size
                p0 = gen.rpt(rng, 4, (1, 2, 4))
                es = rng.sample(gen.PRIM_DIRS, 3)
                if K.det3(*es) == 0:
                    continue
                sc = rng.choice((F(1, 4), F(1, 4), F(1, 2)))
                pts = [p0] + [K.add(p0, K.mul(e, sc)) for e in es]
                if rng.random() < 0.4:
                    pts.append(K.add(p0, K.mul(K.add(es[0], es[1]), sc)))       # quarter-size square pyramid / wedge
                d = K.hull3d(pts)
                if d is None or not gen.ok_coords(d, 4, 12):
                    continue
                nf = len(d[2])
                fo = list(range(nf))
                rng.shuffle(fo)
                yield {"k": "PH", "d": d, "nt": nt if nt != "int" else "float", "forder": fo, "flips": rng.getrandbits(nf), "rots": [rng.randrange(6) for _ in range(nf)], "tiny": True}
                continue
            if len(d[1]) > 10 or max(len(f) for f in d[2]) > 6:
                continue
            if rng.random() < 0.12:
                d2 = gen.split_face(rng, d)          # one face handed over as two coplanar polygons
                if d2 is not None:
                    d = d2
            if nt == "int" and not _integral(d):
                nt = "Fraction" if rng.random() < 0.5 else "float"
            nf = len(d[2])
            if nf <= 6 and rng.random() < 0.25:
                fo = list(range(nf))
                rng.shuffle(fo)
                for bits in range(1 << nf):
                    yield {"k": "PH", "d": d, "nt": nt, "forder": fo, "flips": bits, "rots": [rng.randrange(6) for _ in range(nf)], "exh": True}
            else:
                for _ in range(3):
                    fo = list(range(nf))
                    rng.shuffle(fo)
                    yield _with_move({"k": "PH", "d": d, "nt": nt, "forder": fo, "flips": rng.getrandbits(nf), "rots": [rng.randrange(6) for _ in range(nf)]}, rng)


def _with_move(case, rng):
    """the same body reached through a history: built elsewhere, measured there, moved into place (receiver or
    return value measured); or a sibling derived from it (negation / deep copy) is moved away afterwards; or the
    objects it was constructed from are moved afterwards - none of which may change its measures"""
    r = rng.random()
    if r < 0.15:
        case["mv"] = {"v": [rng.randint(-8, 8) for _ in range(3)], "use": rng.choice(("receiver", "returned")),
                      "sib": rng.choice((None, "neg", "copy")), "w": [rng.randint(-5, 5) for _ in range(3)]}
    elif r < 0.22:
        case["mv"] = {"v": [0, 0, 0], "use": "original-after-sibling-moved", "sib": rng.choice(("neg", "copy")),
                      "w": [rng.randint(-5, 5) or 1 for _ in range(3)]}
    elif r < 0.3:
        case["argmove"] = [rng.randint(-5, 5) or 2 for _ in range(3)]
    elif r < 0.38 and case["k"] == "PH":
        case["premove"] = [rng.randint(-6, 6) for _ in range(3)]
    return case


def _moved(G, build, mv, nt):
    """build(shift) -> object constructed at position + shift"""
    import copy as _copy
    v = tuple(F(c) for c in mv["v"])
    o = build(K.mul(v, -1))
    for name in ("length", "area", "volume"):
        if hasattr(o, name) and callable(getattr(o, name)):
            getattr(o, name)()
    sib = None
    if mv.get("sib") == "neg" and M.kind(o) == "PG":
        sib = -o
    elif mv.get("sib"):
        sib = _copy.deepcopy(o)
    ret = o
    if mv["use"] != "original-after-sibling-moved":
        ret = o.move(G.Vector(*[num(c, nt) for c in v]))
    if sib is not None and hasattr(sib, "move"):
        sib.move(G.Vector(*[float(c) for c in mv.get("w", (1, 2, 3))]))
    return ret if mv["use"] == "returned" else o


def build_polygon(G, vs, order, nt, argmove=None, premove=None):
    if premove:
        # built elsewhere, measured there, then moved into place: the moved receiver itself is what is used
        v = tuple(F(c) for c in premove)
        pg = build_polygon(G, [K.sub(p, v) for p in vs], order, nt)
        try:
            pg.area(), pg.length()
        except Exception:
            pass
        pg.move(G.Vector(*[num(c, nt) for c in v]))
        return pg
    pts = tuple(G.Point(num(vs[i][0], nt), num(vs[i][1], nt), num(vs[i][2], nt)) for i in order)
    pg = G.ConvexPolygon(pts)
    if argmove:
        w = G.Vector(*[float(c) for c in argmove])
        for q in pts:
            q.move(w)             # the caller's Points go elsewhere after the polygon was built from them
    return pg


def build_polyhedron(G, faces, forder, flips, rots, nt, argmove=None, premove=None):
    polys = []
    for j, fi in enumerate(forder):
        f = list(faces[fi])
        r = rots[j] % len(f)
        f = f[r:] + f[:r]
        if (flips >> j) & 1:
            f.reverse()
        if premove and j % 2 == 0:
            polys.append(build_polygon(G, f, list(range(len(f))), nt, premove=premove))       # every other face arrives by an in-place move
            continue
        polys.append(G.ConvexPolygon(tuple(G.Point(num(v[0], nt), num(v[1], nt), num(v[2], nt)) for v in f)))
    ph = G.ConvexPolyhedron(tuple(polys))
    if argmove:
        w = G.Vector(*[float(c) for c in argmove])
        for pg in polys:
            pg.move(w)            # the caller's face polygons go elsewhere after the polyhedron was built from them
    return ph


def _cmp(mu, what, got, want, key):
    if isinstance(got, complex) or got != got:
        mu.fail(key + ":not-a-real-number", "%s returned %r" % (what, got))
        return
    err = abs(float(got) - want) / max(abs(want), 1e-300)
    if err > _diag["max_rel_error"] and err < 1:
        _diag["max_rel_error"] = err
    if err > 1e-9:
        mu.fail(key + ":wrong-value", "%s = %r, exact %r (rel err %.3g)" % (what, got, want, err))


def _measure_twin(G, t, nt, mu):
    """an object that differs from the judged one only in a coordinate -1 against -2 is built and measured first"""
    mu.cell("history:hash-alike-twin-measured-first")
    try:
        if t[0] == "PG":
            o = build_polygon(G, t[1], list(range(len(t[1]))), nt)
            o.area(), o.length()
        else:
            nf = len(t[2])
            o = build_polyhedron(G, t[2], list(range(nf)), 0, [0] * nf, nt)
            o.area(), o.volume(), o.length(), G.volume(o)
    except Exception:
        pass


def judge(case):
    G = load()
    k, d = case["k"], case["d"]
    nt = NT[case["nt"]]
    mu = core.Multi()
    mu.cell("nt:" + case["nt"])
    if k == "S":
        mu.cell("kind:S")
        mk = lambda sh=(0, 0, 0): G.Segment(G.Point(*[num(c, nt) for c in K.add(d[1], sh)]), G.Point(*[num(c, nt) for c in K.add(d[2], sh)]))
        if case.get("mv"):
            mu.cell("pose:via-move")
            s = _moved(G, mk, case["mv"], nt)
        elif case.get("assign"):
            # the segment is built with other end points, measured, and then given its end points by item assignment
            mu.cell("pose:endpoints-assigned")
            s = G.Segment(G.Point(*[num(c, nt) for c in K.add(d[1], (F(1), F(-2), F(3)))]),
                          G.Point(*[num(c, nt) for c in K.add(d[2], (F(-4), F(1), F(2)))]))      # other place, other length
            s.length()
            s[0] = G.Point(*[num(c, nt) for c in d[1]])
            s[1] = G.Point(*[num(c, nt) for c in d[2]])
        else:
            s = mk()
        res, exc, imp = M.call(lambda o: o.length(), s)
        if exc:
            mu.fail("Segment.length:raises-" + M.classify_exc(exc), "Segment.length raised %r" % exc)
        else:
            _cmp(mu, "Segment.length()", res, K.seg_len(d[1], d[2]), "Segment.length")
        return mu.result()
    if k in ("PG", "PY"):
        vs = d[1]
        order = case.get("order") or list(range(len(vs)))
        mu.cell("kind:PG/%d" % len(vs))
        if len(vs) >= 5:
            cx = K.centroid(vs)
            if len({K.dot(K.sub(v, cx), K.sub(v, cx)) for v in vs}) == 1:
                mu.cell("polygon:vertices-on-a-circle-about-their-centroid")
        if case.get("exh"):
            mu.cell("perm:exhaustive-polygon")
        if case.get("mv") and k == "PG":
            mu.cell("pose:via-move", "pose:" + case["mv"]["use"])
            pg = _moved(G, lambda sh: build_polygon(G, [K.add(v, sh) for v in vs], order, nt), case["mv"], nt)
        else:
            if case.get("twin"):
                _measure_twin(G, case["twin"], nt, mu)
            pg = build_polygon(G, vs, order, nt, case.get("argmove") if k == "PG" else None, premove=case.get("premove"))
            if case.get("premove"):
                mu.cell("pose:base-or-faces-moved-into-place")
            if case.get("argmove") and k == "PG":
                mu.cell("pose:constructor-arguments-moved-afterwards")
        area = K.polygon_area(vs)
        if k == "PG":
            for name, want in (("length", K.polygon_perimeter(vs)), ("area", area)):
                res, exc, imp = M.call(lambda o: getattr(o, name)(), pg)
                if exc:
                    mu.fail("ConvexPolygon.%s:raises-%s" % (name, M.classify_exc(exc)), "ConvexPolygon.%s raised %r" % (name, exc))
                else:
                    if imp:
                        mu.fail("ConvexPolygon.%s:operand-modified" % name, imp)
                    _cmp(mu, "ConvexPolygon.%s()" % name, res, want, "ConvexPolygon." + name)
            return mu.result()
        mu.cell("kind:PY")
        apex = case["apex"]
        n = K.polygon_normal(vs)
        h2 = K.dot(n, K.sub(apex, vs[0])) ** 2 / K.dot(n, n)
        h = float(h2) ** 0.5
        py = G.Pyramid(pg, G.Point(*[num(c, nt) for c in apex]), direct_call=False)
        for name, fn, want in (("Pyramid.height", lambda o: o.height(), h), ("Pyramid.volume", lambda o: o.volume(), h * area / 3),
                               ("volume(Pyramid)", lambda o: G.volume(o), h * area / 3)):
            res, exc, imp = M.call(fn, py)
            if exc:
                mu.fail("%s:raises-%s" % (name, M.classify_exc(exc)), "%s raised %r" % (name, exc))
            else:
                _cmp(mu, name, res, want, name)
        return mu.result()
    # polyhedron
    mu.cell("kind:PH", "body:" + gen.family_of(d))
    if len({K.plane_key(gen._reduce(K.polygon_normal(f)) if True else None, f[0]) for f in d[2]}) < len(d[2]):
        mu.cell("body:with-coplanar-faces")
    if case.get("exh"):
        mu.cell("orient:exhaustive-polyhedron")
    if case.get("mv"):
        mu.cell("pose:via-move", "pose:" + case["mv"]["use"])
        ph = _moved(G, lambda sh: build_polyhedron(G, [[K.add(v, sh) for v in f] for f in d[2]], case["forder"], case["flips"], case["rots"], nt), case["mv"], nt)
    else:
        if case.get("slab"):
            mu.cell("body:minus1-minus2-slab")
        if case.get("tiny"):
            mu.cell("body:tiny(edges<=1/2)")
        if case.get("twin"):
            _measure_twin(G, case["twin"], nt, mu)
        ph = build_polyhedron(G, d[2], case["forder"], case["flips"], case["rots"], nt, case.get("argmove"), premove=case.get("premove"))
        if case.get("premove"):
            mu.cell("pose:base-or-faces-moved-into-place")
        if case.get("argmove"):
            mu.cell("pose:constructor-arguments-moved-afterwards")
    want = {"length": K.polyhedron_length(d), "area": K.polyhedron_area(d), "volume": float(K.polyhedron_volume(d))}
    vals = {}
    for name in ("length", "area", "volume"):
        res, exc, imp = M.call(lambda o: getattr(o, name)(), ph)
        if exc:
            mu.fail("ConvexPolyhedron.%s:raises-%s" % (name, M.classify_exc(exc)), "ConvexPolyhedron.%s raised %r" % (name, exc))
        else:
            if imp:
                mu.fail("ConvexPolyhedron.%s:operand-modified" % name, imp)
            vals[name] = res
            _cmp(mu, "ConvexPolyhedron.%s()" % name, res, want[name], "ConvexPolyhedron." + name)
    res, exc, imp = M.call(lambda o: G.volume(o), ph)
    if exc:
        mu.fail("volume(polyhedron):raises-" + M.classify_exc(exc), "volume(x) raised %r" % exc)
    else:
        _cmp(mu, "volume(ConvexPolyhedron)", res, want["volume"], "volume(polyhedron)")
        if "volume" in vals and abs(res - vals["volume"]) > 1e-9 * max(1.0, abs(vals["volume"])):
            mu.fail("volume(x)!=x.volume()", "volume(x)=%r but x.volume()=%r" % (res, vals["volume"]))
    return mu.result()


def worker_report():
    return {"max_rel_error_seen": {"max": _diag["max_rel_error"]}}


def describe(case):
    return {k: (C.show_short(v, 200) if k in ("d", "apex", "twin") else v) for k, v in case.items()}
