"""C20 - queries are pure and composite objects own their data."""
import copy
import random
from fractions import Fraction as F

from .. import kernel as K
from .. import monitor as M
from .. import core, gen
from ..desc import lift, lower, same_set
from ..lib import load
from . import common as C

ID = "C20"
SENTINEL = True      # prelude cases (factory objects used and moved) are judged by the global-state sentinel here
HASH_ADMISSION = False   # snapshots are exact; only the history-independence clause honours the hash-boundary flag
BUDGET = {"quick": 4800, "thorough": 60000}
SOFT = {"quick": 80, "thorough": 560}
RULE = ("a world of 13 live objects of all kinds built from SHARED argument objects (4 points, 3 vectors, the vertex points of a "
        "polygon, the face polygons of a polyhedron) and a script of 5-30 steps: queries over ordered operand pairs "
        "(intersection, in, distance, angle, parallel, orthogonal, ==, hash, repr, length/area/volume, collinear-points "
        "helper), in-place mutations of the shared arguments (Point.move, coordinate / item assignment, Vector item assignment, "
        "moving a face polygon), deep copies and moves of originals / copies; full attribute snapshots of every live object are "
        "compared before and after every step; a fixed set of probe queries is answered before and after the whole history; "
        "distinct by content hash of world + script")
QUERIES = ("intersection", "in", "distance", "angle", "parallel", "orthogonal", "eq", "hash", "repr", "measure", "helper")
OWNERS = (1, 2, 3, 4, 5, 8, 9)          # must not follow later mutation of their constructor arguments
ALIASING = (6, 7, 11, 12)                # Plane / Line(Point, Vector) share arguments by design (outside the ownership clause)
REQUIRED_FUNCS = ("intersection", "distance", "angle", "Segment.__init__", "HalfLine.__init__", "ConvexPolygon.__init__",
                  "ConvexPolyhedron.__init__", "get_segment_from_point_list")
_PERMS = ((0, 1, 2), (1, 0, 2), (1, 2, 0), (2, 1, 0), (0, 2, 1), (2, 0, 1))
_helper_problem = []
_diag = {"steps": 0, "snapshots_compared": 0, "probe_queries_compared": 0}


def required_cells(tier):
    q = tier == "quick"
    req = {}
    for n in QUERIES:
        req["query:" + n] = 300 if q else 6000
    for m in ("point-move", "point-attr", "point-item", "vector-item", "face-move", "segment-item"):
        req["mutate:" + m] = 100 if q else 2000
    req["copy"] = 200
    req["copy:negation-of-a-polygon-kept"] = 30
    for kk in ("PG", "PH", "S"):
        req["twins:" + kk] = 15 if q else 300
    for rk in ("None", "P", "S", "PG"):
        req["pair-result:" + rk] = 20 if q else 400
    req["history:related-questions-on-one-carrier"] = 200 if q else 4000
    req["history:returned-object-moved-by-caller"] = 100
    req["move-original"] = 100
    req["move-copy"] = 100
    for i in range(13):
        req["operand:%d" % i] = 200
    return req


def cases(rng, budget, widx, nworkers, tier):
    while True:
        if rng.random() < 0.05:
            # two different objects that agree everywhere except for one coordinate -1 against -2 (hash-alike in CPython)
            # are asked the same questions one after the other: the second answers must not be the first ones
            kk = rng.choice(("PG", "PH", "S"))
            t1, t2 = gen.slab_twins(rng, kk)
            if rng.random() < 0.5:
                t1, t2 = t2, t1
            yield {"k": "twins", "kind": kk, "t1": t1, "t2": t2, "ls": rng.getrandbits(30)}
            continue
        if rng.random() < 0.3:
            # one ordered pair of operands in a labelled relative position (touching in a vertex / along an edge / in a
            # face, nested, coincident, parallel ...): every query is asked; operands and the library's configuration
            # (tolerance, significant figures) must be what they were
            ka, kb = rng.choice(gen.KINDS), rng.choice(gen.KINDS)
            if rng.random() < 0.3:
                # a family of questions about objects on ONE carrier line, asked one after the other in this process:
                # the partner is slid along the carrier (facing, touching, overlapping, apart; both senses)
                ka, kb = rng.choice(("H", "S", "L", "H")), rng.choice(("H", "S", "H"))
                a, b = gen.collinear_pair(rng, ka, kb)
                dirv = a[2] if a[0] != "S" else K.sub(a[2], a[1])
                fam = []
                for t in rng.sample((-3, -2, -1, gen.F(-1, 2), gen.F(1, 2), 1, 2, 3), 4):
                    sh = K.mul(dirv, t)
                    b2 = (b[0], K.add(b[1], sh), b[2]) if b[0] != "S" else ("S", K.add(b[1], sh), K.add(b[2], sh))
                    if rng.random() < 0.5 and b2[0] == "H":
                        b2 = ("H", b2[1], K.mul(b2[2], -1))
                    if gen.ok_coords(b2, 64, 40):
                        fam.append(b2)
                yield {"k": "pair", "a": a, "b": b, "label": "collinear-family", "ls": rng.getrandbits(30), "family": fam}
                continue
            (a, b), lab = gen.gen_pair(rng, ka, kb, small=True)
            yield {"k": "pair", "a": a, "b": b, "label": lab, "ls": rng.getrandbits(30)}
            continue
        pg = gen.rand_polygon(rng, 3, 6, 3)
        ph = gen.rand_polyhedron(rng, small=True)
        pts = [gen.rpt(rng) for _ in range(4)]
        if len(set(pts)) < 4:
            continue
        vecs = [gen.rdir(rng) for _ in range(4)]
        script = []
        for _ in range(rng.randint(5, 30)):
            r = rng.random()
            if r < 0.62:
                script.append(["q", rng.choice(QUERIES), rng.randrange(13), rng.randrange(13)])
            elif r < 0.8:
                script.append(["m", rng.choice(("point-move", "point-attr", "point-item", "vector-item", "face-move", "segment-item")),
                               rng.randrange(8), [rng.randint(-8, 8) for _ in range(3)], rng.randrange(3)])
            elif r < 0.9:
                script.append(["c", rng.randrange(13)])
            else:
                script.append(["mv", rng.randrange(13), [rng.randint(-8, 8) for _ in range(3)], rng.random() < 0.5])
        yield {"pg": pg, "ph": ph, "pts": pts, "vecs": vecs, "script": script, "flips": rng.getrandbits(len(ph[2])), "probes": [[rng.choice(QUERIES), rng.randrange(13), rng.randrange(13)] for _ in range(6)]}


class World:
    def __init__(self, G, case):
        P = lambda p: G.Point(float(p[0]), float(p[1]), float(p[2]))
        V = lambda p: G.Vector(float(p[0]), float(p[1]), float(p[2]))
        self.G = G
        self.s = [P(p) for p in case["pts"]]                       # shared points
        self.v = [V(p) for p in case["vecs"]]                      # shared vectors
        self.pgpts = [P(p) for p in case["pg"][1]]                 # shared polygon vertices
        flips = case.get("flips", 0)
        # shared face polygons, handed over in arbitrary orientation (bit j set: cycle reversed => normal points inwards)
        self.faces = [G.ConvexPolygon(tuple(P(p) for p in (f[::-1] if (flips >> j) & 1 else f))) for j, f in enumerate(case["ph"][2])]
        s, v = self.s, self.v
        self.pool = [
            P(case["pts"][0]),
            G.Line(s[0], s[1]),
            G.Segment(s[0], s[1]),
            G.Segment(s[2], v[0]),
            G.HalfLine(s[1], v[1]),
            G.HalfLine(s[2], s[3]),
            G.Plane(s[3], v[2]),
            G.Line(s[0], v[0]),
            G.ConvexPolygon(tuple(self.pgpts)),
            G.ConvexPolyhedron(tuple(self.faces)),
            V(case["vecs"][3]),
        ]
        # operands in special position to the others: a plane containing a face of the polyhedron (either normal
        # sense) and a line carrying the segment pool[2] (either sense)
        f0 = case["ph"][2][case.get("flips", 0) % len(case["ph"][2])]
        n0 = K.polygon_normal(f0)
        sgn = -1 if (case.get("flips", 0) >> 3) & 1 else 1
        self.pool.append(G.Plane(P(f0[0]), V(K.mul(gen._reduce(n0), sgn))))
        d_ = K.sub(case["pts"][1], case["pts"][0])
        self.pool.append(G.Line(P(K.add(case["pts"][0], K.mul(d_, 2))), V(K.mul(d_, -sgn))))
        self.copies = []       # (object, frozen snapshot owner index or None)

    def everything(self):
        return self.pool + [c for c in self.copies] + self.s + self.v + self.pgpts + self.faces


def _answer(G, name, a, b):
    """run one query, return a comparable answer"""
    if name == "intersection":
        fn = lambda: G.intersection(a, b)
    elif name == "in":
        fn = lambda: a in b
    elif name == "distance":
        fn = lambda: G.distance(a, b)
    elif name in ("angle", "parallel", "orthogonal"):
        fn = lambda: getattr(G, name)(a, b)
    elif name == "eq":
        fn = lambda: (a == b)
    elif name == "hash":
        fn = lambda: hash(a) == hash(a)
    elif name == "repr":
        fn = lambda: repr(a) == repr(a)
    elif name == "measure":
        fn = lambda: tuple(getattr(a, n)() for n in ("length", "area", "volume") if hasattr(a, n) and callable(getattr(a, n)))
    else:
        def fn():
            if M.kind(a) == "S":
                mid = G.Point((a.start_point.x + a.end_point.x) / 2, (a.start_point.y + a.end_point.y) / 2, (a.start_point.z + a.end_point.z) / 2)
                lst = [a.start_point, mid, a.end_point]
                order = _PERMS[hash(M.kind(b)) % 6 if b is not None else 0]
                lst = [lst[t] for t in order]
                before = [M.snap(p) for p in lst]
                seg = G.get_segment_from_point_list(lst)
                after = [M.snap(p) for p in lst]
                if before != after:
                    _helper_problem.append("get_segment_from_point_list modified its argument points: %r -> %r" % (before, after))
                return lower(seg)
            return None
    try:
        r = fn()
    except Exception as e:    # an exception is an answer too; purity is judged regardless
        return ("exc", type(e).__name__)
    if name == "intersection":
        return ("obj", lower(r))
    if isinstance(r, float):
        return ("num", r)
    if isinstance(r, (bool, int, tuple)) or r is None:
        return ("val", r if not isinstance(r, tuple) else tuple(round(x, 9) if isinstance(x, float) else x for x in r))
    return ("val", bool(r) if not isinstance(r, Exception) else "exc-instance")


def _same_answer(x, y):
    if x[0] != y[0]:
        return False
    if x[0] == "obj":
        return same_set(x[1], x[1] if y[1] is None and x[1] is None else y[1])[0] if (x[1] is None) == (y[1] is None) else False
    if x[0] == "num":
        return abs(x[1] - y[1]) <= 1e-9 * max(1.0, abs(y[1]))
    return x[1] == y[1]


def _judge_twins(case):
    import random as _random
    from ..desc import lift, lower, same_set
    G = load()
    mu = core.Multi()
    kk = case["kind"]
    mu.cell("twins:" + kk)
    r = _random.Random(case["ls"])
    objs = [lift(case["t1"], r), lift(case["t2"], r)]
    descs = [case["t1"], case["t2"]]
    for turn, (o, d) in enumerate(zip(objs, descs)):
        tag = "first" if turn == 0 else "second"
        want = {}
        if kk == "PG":
            want = {"area": K.polygon_area(d[1]), "length": K.polygon_perimeter(d[1])}
        elif kk == "PH":
            want = {"area": K.polyhedron_area(d), "length": K.polyhedron_length(d), "volume": float(K.polyhedron_volume(d))}
        else:
            want = {"length": K.seg_len(d[1], d[2])}
        for name, w in want.items():
            res, exc, imp = M.call(lambda x: getattr(x, name)(), o)
            if exc is not None:
                mu.fail("twins:%s:%s-raises" % (kk, name), "%s() of the %s twin raised %r" % (name, tag, exc))
            elif abs(res - w) > 1e-9 * max(1.0, abs(w)):
                mu.fail("twins:%s:%s-answer-depends-on-earlier-queries" % (kk, name), "%s() of the %s twin = %r, exact %r (the other twin differs in one coordinate -1 / -2)" % (name, tag, res, w))
        if kk == "PH":
            res, exc, _ = M.call(lambda x: G.volume(x), o)
            if exc is None and abs(res - want["volume"]) > 1e-9 * max(1.0, want["volume"]):
                mu.fail("twins:PH:volume()-answer-depends-on-earlier-queries", "volume(x) of the %s twin = %r, exact %r" % (tag, res, want["volume"]))
        # a point query and a section, answered by the exact model
        feats = gen.all_features(d)
        for q in feats[:3]:
            res, exc, _ = M.call(lambda x, pt: pt in x, o, G.Point(*[float(c) for c in q]))
            if exc is None and res is not True:
                mu.fail("twins:%s:membership" % kk, "a feature point of the %s twin is reported outside it" % tag)
        ln = ("L", feats[0], K.sub(feats[-1], feats[0])) if feats[-1] != feats[0] else None
        if ln is not None:
            K.reset()
            exp = K.inter(ln, d)
            if core.admitted():
                res, exc, _ = M.call(G.intersection, lift(ln, None), o)
                if exc is not None:
                    mu.fail("twins:%s:intersection-raises" % kk, "intersection(line, %s twin) raised %r" % (tag, exc))
                else:
                    same, why = same_set(lower(res), exp) if (res is not None and exp is not None) else ((res is None) == (exp is None), "None")
                    if not same:
                        mu.fail("twins:%s:intersection-answer" % kk, "intersection(line, %s twin) = %s, exact %s" % (tag, C.show_short(lower(res), 100), C.show_short(exp, 100)))
    res, exc, _ = M.call(lambda a, b: (a == b, b == a, len({a, b})), objs[0], objs[1])
    if exc is None and (res[0] or res[1] or res[2] != 2):
        mu.fail("twins:%s:different-objects-equal" % kk, "two different objects compare equal / collapse in a set: %r" % (res,))
    return mu.result()


def _judge_pair(case):
    G = load()
    mu = core.Multi()
    a, b = case["a"], case["b"]
    K.reset()
    exp = K.inter(a, b)
    mu.cell("pair:%s,%s" % (a[0], b[0]), "pair-result:" + C.kname(exp))
    adm = core.admitted()
    x, y = C.lift_pair(case)
    if adm:
        # the answer itself, against the exact model: it must not depend on what this process was asked before
        C.run_inter(G.intersection, x, y, exp, "intersection(a,b)", mu, "%s,%s" % (a[0], b[0]))
        for b2 in case.get("family", ()):
            K.reset()
            exp2 = K.inter(a, b2)
            if core.admitted():
                mu.cell("history:related-questions-on-one-carrier")
                from ..desc import lift as _lift
                for xx, yy, tg in ((x, _lift(b2, None), "intersection(a,b')"), (_lift(b2, None), x, "intersection(b',a)")):
                    C.run_inter(G.intersection, xx, yy, exp2, tg, mu, "%s,%s" % (a[0], b2[0]) if tg.endswith("b')") else "%s,%s" % (b2[0], a[0]))
    cfg0 = (G.get_eps(), G.get_sig_figures())
    for name in ("intersection", "in", "distance", "angle", "parallel", "orthogonal", "eq", "hash", "measure"):
        for p, q in ((x, y), (y, x)):
            res, exc, imp = M.call(lambda u, v: _answer(G, name, u, v), p, q)
            if imp:
                mu.fail("query-modifies-state:%s:%s,%s" % (name, M.kind(p), M.kind(q)), "%s changed an operand: %s" % (name, imp))
            cfg = (G.get_eps(), G.get_sig_figures())
            if cfg != cfg0:
                mu.fail("query-changes-configuration:%s:%s,%s->%s" % (name, M.kind(p), M.kind(q), C.kname(exp)),
                        "%s(%s, %s) left the library with (eps, significant figures) = %r, before %r" % (name, M.kind(p), M.kind(q), cfg, cfg0))
                G.set_eps(cfg0[0])
    return mu.result()


def judge(case):
    if case.get("k") == "twins":
        return _judge_twins(case)
    if case.get("k") == "pair":
        return _judge_pair(case)
    G = load()
    mu = core.Multi()
    W = World(G, case)
    pool = W.pool
    # probe answers on the fresh world
    probes0 = [(_answer(G, n, pool[i], pool[j])) for n, i, j in case["probes"]]
    touched = set()            # pool indices legitimately changed (moved on purpose / aliasing a mutated argument)
    snaps = [M.snap(o) for o in W.everything()]

    def compare(step, allowed):
        nonlocal snaps
        cur = [M.snap(o) for o in W.everything()]
        _diag["snapshots_compared"] += len(cur)
        for idx, (a, b) in enumerate(zip(snaps, cur)):
            if idx in allowed:
                continue
            d = M.snap_diff(a, b)
            if d:
                return idx, d
        snaps = cur
        return None

    reask = []
    kept_returned = []
    names = (["pool[%d]:%s" % (i, M.kind(o)) for i, o in enumerate(pool)])
    for step in case["script"]:
        if mu.viol is not None:
            break
        _diag["steps"] += 1
        everything = W.everything()
        if len(snaps) != len(everything):
            snaps = [M.snap(o) for o in everything]
        if step[0] == "q":
            _, name, i, j = step
            mu.cell("query:" + name, "operand:%d" % i, "operand:%d" % j)
            del _helper_problem[:]
            ans = _answer(G, name, pool[i], pool[j])
            if name == "intersection" and ans[0] == "obj" and (i + 2 * j) % 3 == 0 and i not in touched and j not in touched:
                # the caller moves the object a query returned (when it is a fresh object): a later identical
                # query must not be affected by that
                try:
                    r_ = G.intersection(pool[i], pool[j])
                except Exception:
                    r_ = None
                # only a result that shares no object with any live object is the caller's to move (a face of a
                # polyhedron or an operand returned as the result is not: moving it would be the caller changing the operand)
                if r_ is not None and hasattr(r_, "move") and not M.shares_state(r_, W.everything()):
                    try:
                        r_.move(G.Vector(1.25, -0.5, 2.0))
                    except Exception:
                        pass
                    mu.cell("history:returned-object-moved-by-caller")
                    reask.append((i, j, ans))
            if _helper_problem:
                mu.fail("helper-modifies-arguments", _helper_problem[0])
            bad = compare(step, ())
            if bad:
                idx, d = bad
                who = _who(W, idx)
                mu.fail("query-modifies-state:%s:%s,%s" % (name, M.kind(pool[i]), M.kind(pool[j])),
                        "%s(%s, %s) changed %s: %s" % (name, M.kind(pool[i]), M.kind(pool[j]), who, d))
        elif step[0] == "m":
            _, how, t, vec, ax = step
            mu.cell("mutate:" + how)
            npool = len(pool) + len(W.copies)
            allowed = set()
            if how == "point-move":
                tgt = (W.s + W.pgpts)[t % (len(W.s) + len(W.pgpts))]
                tgt.move(G.Vector(*[c / 4.0 for c in vec]))
            elif how == "point-attr":
                tgt = (W.s + W.pgpts)[t % (len(W.s) + len(W.pgpts))]
                setattr(tgt, "xyz"[ax], getattr(tgt, "xyz"[ax]) + (vec[0] or 1) / 4.0)
            elif how == "point-item":
                tgt = (W.s + W.pgpts)[t % (len(W.s) + len(W.pgpts))]
                tgt[ax] = tgt[ax] + (vec[1] or 1) / 4.0
            elif how == "vector-item":
                tgt = W.v[t % 3]
                tgt[ax] = tgt[ax] + (vec[2] or 1)
                if all(c == 0 for c in (tgt[0], tgt[1], tgt[2])):
                    tgt[ax] = 1.0
            elif how == "segment-item":
                # an end point of a live Segment is replaced through item assignment (public API); the segment is
                # the caller's to change - what matters is that later queries do not change it any further
                si = (2, 3)[t % 2]
                seg = pool[si]
                seg[ax % 2] = G.Point(*[c / 4.0 + 0.25 for c in vec])
                touched.add(si)
                snaps = [M.snap(o) for o in W.everything()]
                continue
            else:
                tgt = W.faces[t % len(W.faces)]
                tgt.move(G.Vector(*[c / 4.0 for c in vec]))
            # the mutated argument itself (and what it is made of) may change; aliasing objects follow by design
            ev = W.everything()
            for idx, o in enumerate(ev):
                if idx >= npool or idx in ALIASING:
                    allowed.add(idx)
            for idx, o in enumerate(W.copies):
                # deep copies of aliasing objects own their data: they must not follow
                pass
            bad = compare(step, allowed)
            if bad:
                idx, d = bad
                who = _who(W, idx)
                mu.fail("owner-follows-argument:%s:%s" % (how, who.split(":")[-1]),
                        "after mutating a constructor argument (%s) the object %s changed: %s" % (how, who, d))
        elif step[0] == "c":
            mu.cell("copy")
            i = step[1]
            if M.kind(pool[i]) == "PG" and len(W.copies) % 2 == 0:
                # the negation of a polygon is a polygon of its own (it owns its data): kept like a copy, it must not
                # follow the original when that moves on
                mu.cell("copy:negation-of-a-polygon-kept")
                try:
                    ng = -pool[i]
                except Exception as e:
                    mu.fail("negation-raises:PG", "-polygon raised %r" % e)
                    continue
                W.copies.append(ng)
                W.copy_src = getattr(W, "copy_src", []) + [i]
                snaps = [M.snap(o) for o in W.everything()]
                continue
            cp, exc, imp = M.call(copy.deepcopy, pool[i])
            if exc is not None:
                mu.fail("deepcopy-raises:%s" % M.kind(pool[i]), "deepcopy raised %r" % exc)
                continue
            if imp:
                mu.fail("deepcopy-modifies-original:%s" % M.kind(pool[i]), imp)
            if M.snap(cp) != M.snap(pool[i]):
                mu.fail("deepcopy-differs:%s" % M.kind(pool[i]), "deep copy differs from the original: %s" % M.snap_diff(M.snap(pool[i]), M.snap(cp)))
            k = M.kind(pool[i])
            if k != "VEC" or True:
                r, e, _ = M.call(lambda a, b: a == b, cp, pool[i])
                if e is not None or not r:
                    mu.fail("deepcopy-not-equal:%s" % k, "deepcopy(x) == x is %r" % (e or r))
            W.copies.append(cp)
            W.copy_src = getattr(W, "copy_src", []) + [i]
            snaps = [M.snap(o) for o in W.everything()]
        else:
            _, i, vec, on_copy = step
            v = G.Vector(*[c / 4.0 for c in vec])
            if on_copy and W.copies:
                ci = i % len(W.copies)
                obj = W.copies[ci]
                mu.cell("move-copy")
                target_idx = len(pool) + ci
            else:
                obj = pool[i]
                mu.cell("move-original")
                target_idx = i
            if not hasattr(obj, "move"):
                continue
            allowed = {target_idx}
            # the objects an aliasing original shares state with may follow it
            if target_idx in ALIASING:
                allowed |= {len(pool) + len(W.copies) + t for t in range(len(W.s) + len(W.v))}
                allowed |= set(ALIASING)
            if target_idx == 7 or target_idx == 6:
                pass
            try:
                ret_ = obj.move(v)
                if M.kind(obj) in ("S", "H", "PG", "PH") and ret_ is not None and ret_ is not obj:
                    kept_returned.append(ret_)
            except Exception:
                pass
            # whatever move() returned earlier is still held by the caller: it must remain a consistent object of its
            # own kind when the original moves on (a polyhedron whose faces have left its vertices is not)
            for kr in kept_returned:
                badk = M.invariants(kr)
                if badk:
                    mu.fail("object-returned-by-move-damaged-by-a-later-move:%s" % M.kind(kr), "an object returned by move() is no longer consistent after later moves: %s" % badk[0])
                    break
            bad = compare(step, allowed)
            if bad:
                idx, d = bad
                who = _who(W, idx)
                mu.fail("move-leaks:%s->%s" % (M.kind(obj), who.split(":")[-1]),
                        "moving %s changed another object %s: %s" % (M.kind(obj), who, d))
            if target_idx < len(pool):
                touched.add(target_idx)
    if mu.viol is None and not M.ST.hash_flag:
        for i, j, a0 in reask:
            if i in touched or j in touched or i in ALIASING or j in ALIASING:
                continue
            a1 = _answer(G, "intersection", pool[i], pool[j])
            if not _same_answer(a0, a1):
                mu.fail("answer-changes-after-caller-moved-a-returned-object:%s,%s" % (M.kind(pool[i]), M.kind(pool[j])),
                        "intersection(%s,%s) answered %r before and %r after the caller moved the earlier result" % (M.kind(pool[i]), M.kind(pool[j]), a0, a1))
                break
    # answers must not depend on the history in between
    if mu.viol is None and not M.ST.hash_flag:
        for (n, i, j), a0 in zip(case["probes"], probes0):
            if i in touched or j in touched or i in ALIASING or j in ALIASING:
                continue
            _diag["probe_queries_compared"] += 1
            a1 = _answer(G, n, pool[i], pool[j])
            if not _same_answer(a0, a1):
                mu.fail("answer-depends-on-history:%s:%s,%s" % (n, M.kind(pool[i]), M.kind(pool[j])),
                        "%s(%s,%s) answered %r on the fresh world and %r after the history" % (n, M.kind(pool[i]), M.kind(pool[j]), a0, a1))
    return mu.result(outcome="%d steps" % len(case["script"]))


def _who(W, idx):
    n = len(W.pool)
    if idx < n:
        return "pool[%d]:%s" % (idx, M.kind(W.pool[idx]))
    idx -= n
    if idx < len(W.copies):
        return "copy[%d]:%s" % (idx, M.kind(W.copies[idx]))
    idx -= len(W.copies)
    for name, lst in (("shared-point", W.s), ("shared-vector", W.v), ("polygon-vertex-arg", W.pgpts), ("face-arg", W.faces)):
        if idx < len(lst):
            return "%s[%d]:%s" % (name, idx, M.kind(lst[idx]))
        idx -= len(lst)
    return "?"


def worker_report():
    return dict(_diag)


def describe(case):
    if case.get("k") == "pair":
        return C.describe_pair(case)
    if case.get("k") == "twins":
        return {"twins": [C.show_short(case["t1"], 160), C.show_short(case["t2"], 160)]}
    return {"pg": C.show_short(case["pg"], 120), "ph_vertices": len(case["ph"][1]), "script": case["script"][:12]}
