"""C02 - flat primitive vs convex polygon / polyhedron intersection is exact."""
from .. import kernel as K
from .. import monitor as M
from .. import core, gen
from ..lib import load
from . import common as C

ID = "C02"
BUDGET = {"quick": 16000, "thorough": 400000}
SOFT = {"quick": 70, "thorough": 560}
RULE = ("the 10 kind pairs {Point,Line,HalfLine,Segment,Plane} x {ConvexPolygon,ConvexPolyhedron} in both argument orders, "
        "cycled; bodies are exact lattice hulls (triangles..octagons; tetrahedra, oblique boxes, prisms, pyramids, bipyramids, "
        "general hulls) with shuffled face order and vertex cycles; 75% of flat operands are built through feature points of the "
        "body (vertices, edge midpoints, face points, interior points, points on an edge/face carrier outside the body), 25% random; "
        "non-trivial = admitted (margin>=1e-3, no hash-boundary flag) and compared with the exact oracle; distinct by content hash")
ASSUMPTIONS = ["helpers get_segment_*_intersection_point_set / get_segment_from_point_list are observed as diagnostics, not judged"]
PAIRS = [(f, b) for f in gen.FLAT for b in ("PG", "PH")] + [(b, f) for f in gen.FLAT for b in ("PG", "PH")]
REQUIRED_FUNCS = ("inter_line_convexpolygon", "inter_line_convexpolyhedron", "inter_plane_convexpolygon",
                  "inter_plane_convexpolyhedron", "inter_segment_convexpolygon", "inter_segment_convexpolyhedron",
                  "inter_convexpolygon_halfline", "inter_convexpolyhedron_halfline", "inter_point_convexpolygon",
                  "inter_point_convexpolyhedron", "get_segment_convexpolyhedron_intersection_point_set",
                  "get_halfline_convexpolyhedron_intersection_point_set", "get_segment_from_point_list",
                  "ConvexPolygon.__contains__", "ConvexPolyhedron.__contains__")
RESULTS = {"P": ("None", "P"), "L": ("None", "P", "S"), "H": ("None", "P", "S"), "S": ("None", "P", "S")}
_inner = C.InnerShadow(lambda ka, kb: (ka in gen.FLAT) != (kb in gen.FLAT) and ka in gen.KINDS and kb in gen.KINDS, cap=4, p=0.3)


def setup():
    _inner.install()


_diag = {"helper_calls": 0, "helper_point_off_boundary": 0, "helper_longest_wrong": 0}


def required_cells(tier):
    req = {}
    q = tier == "quick"
    for a, b in PAIRS:
        req["pair:%s,%s" % (a, b)] = 20 if q else 400
        f, body = (a, b) if a in gen.FLAT else (b, a)
        kinds = RESULTS.get(f) or (("None", "P", "S", "PG") if True else ())
        for r in kinds:
            if q and f == "PL" and body == "PG" and r == "P":
                continue       # a plane touching a polygon in one vertex only is rare in 16 k cases (2-10 per run): reported, not required
            req["pair:%s,%s->%s" % (a, b, r)] = 2 if q else 20
    for s in ("point-vertex", "point-edge", "point-interior", "point-face", "point-outside", "point-in-plane-outside",
              "point-off-plane", "carrier-along-edge", "carrier-in-face-plane", "carrier-through-vertex", "carrier-generic",
              "start-vertex", "start-edge", "start-face", "start-interior", "start-outside", "end-interior", "end-outside",
              "touching-or-single-hit", "plane-coplanar", "plane-cutting", "plane-cutting-through-vertex", "plane-missing",
              "plane-tangent-vertex", "plane-tangent-edge", "plane-tangent-face"):
        req["pos:" + s] = 10 if q else 100
    req["helper:longest-segment"] = 100 if q else 3000
    req["body:more-than-10-faces-vs-line"] = 15 if q else 300
    req["gen:minus1-minus2-slab"] = 100 if q else 2000
    for hc in ("used-then-moved/receiver", "used-then-moved/returned", "moved/receiver"):
        req["pose:history/" + hc] = 30
    return req


def cases(rng, budget, widx, nworkers, tier):
    i = widx
    while True:
        ka, kb = PAIRS[i % len(PAIRS)]
        i += 1
        if i % 23 == 0:
            # exported helper: "the longest segment between the points" of a collinear point list
            p, d = gen.rpt(rng), gen.rdir(rng)
            ts = rng.sample([gen.F(x, 2) for x in range(-6, 7)], rng.randint(2, 6))
            yield {"helper": "longest-segment", "pts": [K.add(p, K.mul(d, t)) for t in ts], "label": "helper"}
            continue
        (a, b), label = gen.gen_pair(rng, ka, kb, small=rng.random() < 0.5)
        yield C.maybe_hist({"a": a, "b": b, "label": label, "ls": rng.getrandbits(30)}, rng)


def _judge_helper(case):
    G = load()
    mu = core.Multi()
    mu.cell("helper:longest-segment", "helper:%d-points" % len(case["pts"]))
    pts = [G.Point(*[float(c) for c in q]) for q in case["pts"]]
    res, exc, imp = M.call(G.get_segment_from_point_list, pts)
    lo, hi = min(case["pts"]), max(case["pts"])      # extremes along the carrier = lexicographic extremes of collinear points
    if exc is not None:
        mu.fail("helper:longest-segment:raises-" + M.classify_exc(exc), "get_segment_from_point_list(collinear points) raised %r" % exc)
    else:
        if imp:
            mu.fail("helper:longest-segment:arguments-modified", imp)
        from ..desc import lower, same_set
        same, why = same_set(lower(res), ("S", lo, hi))
        if not same:
            mu.fail("helper:longest-segment:wrong", "get_segment_from_point_list returned %s, longest segment is %s" % (C.show_short(lower(res)), C.show_short(("S", lo, hi))))
    return mu.result()


def judge(case):
    if case.get("helper"):
        return _judge_helper(case)
    G = load()
    _inner.new_case()
    a, b, pre = C.effective(case)
    if a is None:
        return core.not_admitted("alias-reread")
    exp = K.inter(a, b)
    if not core.admitted():
        return core.not_admitted("margin")
    ka, kb = a[0], b[0]
    f, body = (a, b) if ka in gen.FLAT else (b, a)
    mu = core.Multi()
    mu.cell("pair:%s,%s" % (ka, kb), "pair:%s,%s->%s" % (ka, kb, C.kname(exp)), "gen:" + case["label"])
    mu.cell(*C.hist_cell(case))
    for lab in C.classify_f_body(f, body, exp):
        mu.cell("pos:" + lab)
    if body[0] == "PH":
        mu.cell("body:" + gen.family_of(body))
        if len(body[2]) > 10 and (a[0] == "L" or b[0] == "L"):
            mu.cell("body:more-than-10-faces-vs-line")
    else:
        mu.cell("body:%d-gon" % len(body[1]))
    x, y = pre or C.lift_pair(case)
    kb_ = "%s,%s" % (ka, kb)
    C.run_inter(G.intersection, x, y, exp, "intersection(a,b)", mu, kb_, descs=(a, b))
    if ka != "P":
        C.run_inter(lambda p, q: p.intersection(q), x, y, exp, "a.intersection(b)", mu, kb_)
    if f[0] == "S" and mu.viol is None:
        _helpers(G, x if ka == "S" else y, y if ka == "S" else x, f, body)
    _inner.finish(mu)
    return mu.result(outcome=C.show_short(exp, 120))


def _helpers(G, s, body_obj, f, body):
    """diagnostic observation of the exported helper functions"""
    try:
        if body[0] == "PH":
            pts = G.get_segment_convexpolyhedron_intersection_point_set(s, body_obj)
        else:
            pts = G.get_segment_convexpolygon_intersection_point_set(s, body_obj)
    except Exception:
        return
    _diag["helper_calls"] += 1
    saved = (K.ST.margin, K.ST.decisions)
    try:
        from ..desc import exact_of_float, lower
        for p in pts:
            lp = lower(p)[1]
            # distance to the segment and to the body's boundary: judged loosely in float
            a0, a1 = K.fl(f[1]), K.fl(f[2])
            d = K.sub(a1, a0)
            t = K.dot(K.sub(lp, a0), d) / K.dot(d, d)
            foot = K.add(a0, K.mul(d, min(1.0, max(0.0, t))))
            if K.norm(K.sub(lp, foot)) > 1e-7:
                _diag["helper_point_off_boundary"] += 1
    finally:
        K.ST.margin, K.ST.decisions = saved


def worker_report():
    _h = {"operand_histories": dict(C.HIST_STATS)}
    d = dict(_diag)
    d.update(_inner.report())
    d.update(_h)
    return d


def describe(case):
    if case.get("helper"):
        return {"helper": case["helper"], "points": [C.show_short(q) for q in case["pts"]]}
    return C.describe_pair(case)
