"""C08 - equality is representation-independent and consistent with hashing."""
import copy
import random
from fractions import Fraction as F

from .. import kernel as K
from .. import monitor as M
from .. import core, gen
from ..desc import lift, lower, same_set, num, plane_basis
from ..lib import load
from . import common as C

ID = "C08"
BUDGET = {"quick": 9600, "thorough": 240000}
SOFT = {"quick": 70, "thorough": 560}
RULE = ("per base object (all seven types plus Vector, cycled) one alternative exact representation of the same set (other "
        "defining points, direction / normal scaled by +-k, two-/three-point forms, swapped endpoints, vertex rotations / "
        "reflections / duplicates / shuffles, face permutations and re-orientations, int / float / Fraction coordinates, "
        "move-and-back, float-noise copies a few ulps off) and one near-miss different set (defining point displaced by a lattice step, tilted direction, one "
        "vertex changed); checked: ==, != both ways, hash, set deduplication, reflexivity, foreign-type comparison; "
        "distinct by content hash")
KINDS = gen.KINDS + ("VEC",)
REQUIRED_FUNCS = ("Point.__eq__", "Point.__hash__", "Vector.__eq__", "Vector.__hash__", "Line.__eq__", "Line.__hash__",
                  "Plane.__eq__", "Plane.__hash__", "Segment.__eq__", "Segment.__hash__", "HalfLine.__eq__",
                  "HalfLine.__hash__", "ConvexPolygon.__eq__", "ConvexPolygon.__hash__", "ConvexPolyhedron.__eq__",
                  "ConvexPolyhedron.__hash__")
NT = {"float": float, "int": int, "Fraction": F}


def required_cells(tier):
    q = tier == "quick"
    req = {}
    for k in KINDS:
        req["same:" + k] = 100 if q else 3000
        req["different:" + k] = 100 if q else 3000
    for v in ("L/other-point", "L/direction-scaled", "L/direction-negated", "L/two-point-form", "PL/other-point",
              "PL/normal-scaled", "PL/normal-negated", "PL/three-point-form", "PL/two-vector-form", "S/swapped",
              "S/point-vector-form", "H/direction-scaled", "H/two-point-form", "PG/rotated", "PG/reflected", "PG/duplicates",
              "PG/shuffled", "PH/face-order", "PH/face-orientation", "any/numeric-type", "any/move-and-back", "any/used-then-moved-into-place", "any/negative-zero",
              "any/other-of-(receiver,returned)-moved-on", "any/built-from-points-with-a-past", "any/float-noise-copy"):
        req["variant:" + v] = 15 if q else 300
    req["foreign-type"] = 100
    req["near-miss:coordinate -1 vs -2"] = 50
    return req


def _neg_unit_pair(rng, k):
    """two different objects that differ only in one coordinate being -1 vs -2, everything else in {0,1}
    (CPython hashes -1.0 and -2.0 alike: the only way small lattice objects can collide in a hash)"""
    ax = rng.randrange(3)
    o1, o2 = [a for a in range(3) if a != ax]

    def pt(u, v, w):
        c = [F(0)] * 3
        c[o1], c[o2], c[ax] = F(u), F(v), F(w)
        return tuple(c)
    out = []
    for w in (-1, -2):
        if k == "P":
            out.append(("P", pt(1, 1, w)))
        elif k == "VEC":
            out.append(("VEC", pt(1, 1, w)))
        elif k == "S":
            out.append(("S", pt(0, 0, w), pt(1, 1, w)))
        elif k in ("L", "H"):
            out.append((k, pt(1, 0, w), K.sub(pt(1, 1, 0), pt(0, 0, 0))))
        elif k == "PL":
            out.append(("PL", pt(0, 0, w), pt(0, 0, 1)))
        elif k == "PG":
            out.append(("PG", (pt(0, 0, w), pt(1, 0, w), pt(1, 1, w), pt(0, 1, w))))
        else:
            out.append(K.hull3d([pt(u, v, z) for u in (0, 1) for v in (0, 1) for z in (w, 0)]))
    return out


def cases(rng, budget, widx, nworkers, tier):
    sm = lambda: tier == "quick" or rng.random() < 0.5      # thorough: half of the bodies from the full families (prisms, bipyramids, general hulls)
    i = widx
    while True:
        k = KINDS[i % len(KINDS)]
        i += 1
        if i % 17 == 0:
            a, b = _neg_unit_pair(rng, k)
            yield {"d": a, "vs": rng.getrandbits(30), "ns": rng.getrandbits(30), "nm": b, "label": "neg-unit-shift"}
            continue
        d = ("VEC", gen.rdir(rng, 4)) if k == "VEC" else gen.rand_obj(rng, k, small=sm())
        rr = rng.random()
        if k == "PG" and rr < 0.06:
            d = gen.slab_polygon(rng)[2]                    # two vertices that hash alike (-1 against -2)
        elif k == "PH" and rr < 0.06:
            d = gen.slab_body(rng, wide=rng.random() < 0.4)[1]
        elif k == "L" and rr < 0.08:
            # direction of rational length (unit components are short decimals), support chosen so that the moment is one too
            dv = rng.choice(((3, 4, 0), (0, 3, 4), (4, 0, 3), (1, 2, 2), (2, 1, 2), (2, 3, 6), (6, 2, 3)))
            dv = tuple(gen.F(c) * rng.choice((1, -1)) for c in dv)
            d = ("L", gen.rpt(rng, 3, (1, 1, 2)), dv)
        elif k == "PL" and rr < 0.1:
            ax = [gen.F(0)] * 3
            ax[rng.randrange(3)] = gen.F(rng.choice((1, -1)))
            d = ("PL", gen.rpt(rng), tuple(ax))            # normal of length exactly 1
        yield {"d": d, "vs": rng.getrandbits(30), "ns": rng.getrandbits(30)}


def _P(G, p, nt=float):
    return G.Point(num(p[0], nt), num(p[1], nt), num(p[2], nt))


def _V(G, p, nt=float):
    return G.Vector(num(p[0], nt), num(p[1], nt), num(p[2], nt))


def _integral(d):
    return all(F(c).denominator == 1 for c in gen.coords_of(d))


def _variant(G, d, r):
    """(label, object): another exact representation of the same set"""
    k = d[0]
    ch = r.random()
    if ch < 0.05 and any(c == 0 for c in gen.coords_of(d)):
        from ..desc import negzero
        return "any/negative-zero", lift(d, None, negzero)
    if ch < 0.12:
        nt = r.choice(("Fraction", "int"))
        if nt == "int" and not _integral(d):
            nt = "Fraction"
        return "any/numeric-type", lift(d, None, NT[nt])
    if ch < 0.17 and k not in ("VEC",):
        # built elsewhere, used there (hashed, compared, queried), then moved into place
        h = C.make_hist(r, d)
        h["touch"] = True
        if h.get("alias"):
            # ... and afterwards the other one of (receiver, returned object) is moved on; the object is then compared
            # with a fresh one built from what its own public attributes say (see common.reread)
            h["reread_ok"] = True
            o = C.lift_via_history(d, h, r)
            nd = h.get("_reread")
            if nd is not None:
                _variant.reread = nd
                return "any/other-of-(receiver,returned)-moved-on", o
            return "any/used-then-moved-into-place", C.lift_via_history(d, dict(h, alias=False), r)
        return "any/used-then-moved-into-place", C.lift_via_history(d, h, r)
    if ch < 0.21 and k not in ("VEC", "P"):
        # built from Points that were used before: to build other objects that were moved away, or hashed elsewhere and
        # given their coordinates by item assignment
        return "any/built-from-points-with-a-past", lift(d, r, past=True)
    if ch < 0.26 and k != "VEC":
        o = lift(d, None)
        v = tuple(F(r.randint(-6, 6), r.choice((1, 2, 4))) for _ in range(3))
        o.move(_V(G, v))
        o2 = o.move(_V(G, K.mul(v, -1)))
        return "any/move-and-back", (o if r.random() < 0.5 else o2)
    if ch < 0.34 and k != "VEC":
        # the same object with the rounding noise computed values carry (every coordinate off by a few ulps, zeros by
        # 1e-17 .. 2e-16; every copy of a shared vertex drawn afresh): equal for every comparison the library makes, so it
        # has to hash alike too
        from ..desc import noisy
        return "any/float-noise-copy", lift(d, None, noisy(r))
    if k == "P":
        return "P/list-form", G.Point([float(c) for c in d[1]])
    if k == "VEC":
        c = r.random()
        if c < 0.5:
            return "VEC/list-form", G.Vector([float(x) for x in d[1]])
        a = gen.rpt(r)
        return "VEC/from-points", G.Vector(_P(G, a), _P(G, K.add(a, d[1])))
    if k == "L":
        p, dv = d[1], d[2]
        c = r.randrange(4)
        t = r.choice((F(1), F(-2), F(1, 2), F(3)))
        if c == 0:
            return "L/other-point", G.Line(_P(G, K.add(p, K.mul(dv, t))), _V(G, dv))
        if c == 1:
            return "L/direction-scaled", G.Line(_P(G, p), _V(G, K.mul(dv, r.choice((2, 3, F(1, 2), 5)))))
        if c == 2:
            return "L/direction-negated", G.Line(_P(G, p), _V(G, K.mul(dv, r.choice((-1, -2, F(-1, 2))))))
        t2 = t + r.choice((1, -1, 2, F(1, 2)))
        return "L/two-point-form", G.Line(_P(G, K.add(p, K.mul(dv, t))), _P(G, K.add(p, K.mul(dv, t2))))
    if k == "PL":
        p, n = d[1], d[2]
        u, v = plane_basis(n)
        q = K.add(p, K.add(K.mul(u, F(r.randint(-2, 2), 2)), K.mul(v, F(r.randint(-2, 2), 2))))
        c = r.randrange(5)
        if c == 0:
            return "PL/other-point", G.Plane(_P(G, q), _V(G, n))
        if c == 1:
            return "PL/normal-scaled", G.Plane(_P(G, p), _V(G, K.mul(n, r.choice((2, 3, F(1, 2))))))
        if c == 2:
            return "PL/normal-negated", G.Plane(_P(G, q), _V(G, K.mul(n, r.choice((-1, -2, F(-1, 2))))))
        if c == 3:
            a, b = (u, v) if r.random() < 0.5 else (v, u)
            return "PL/three-point-form", G.Plane(_P(G, q), _P(G, K.add(q, a)), _P(G, K.add(q, b)))
        a, b = (u, v) if r.random() < 0.5 else (v, K.add(u, v))
        return "PL/two-vector-form", G.Plane(_P(G, q), _V(G, a), _V(G, b))
    if k == "S":
        if r.random() < 0.6:
            return "S/swapped", G.Segment(_P(G, d[2]), _P(G, d[1]))
        return "S/point-vector-form", G.Segment(_P(G, d[2]), _V(G, K.sub(d[1], d[2])))
    if k == "H":
        if r.random() < 0.5:
            return "H/direction-scaled", G.HalfLine(_P(G, d[1]), _V(G, K.mul(d[2], r.choice((2, 3, F(1, 2), 5, 7)))))
        return "H/two-point-form", G.HalfLine(_P(G, d[1]), _P(G, K.add(d[1], K.mul(d[2], r.choice((1, 2, F(1, 2), 3))))))
    if k == "PG":
        vs = list(d[1])
        c = r.randrange(4)
        if c == 0:
            s = r.randrange(1, len(vs))
            return "PG/rotated", G.ConvexPolygon(tuple(_P(G, v) for v in vs[s:] + vs[:s]))
        if c == 1:
            return "PG/reflected", G.ConvexPolygon(tuple(_P(G, v) for v in reversed(vs)))
        if c == 2:
            dup = vs + [r.choice(vs) for _ in range(r.randint(1, 3))]
            return "PG/duplicates", G.ConvexPolygon(tuple(_P(G, v) for v in dup))
        r.shuffle(vs)
        return "PG/shuffled", G.ConvexPolygon(tuple(_P(G, v) for v in vs))
    if k == "PH":
        faces = [list(f) for f in d[2]]
        if r.random() < 0.5:
            r.shuffle(faces)
            lab = "PH/face-order"
        else:
            faces = [list(reversed(f)) if r.random() < 0.6 else f[1:] + f[:1] for f in faces]
            lab = "PH/face-orientation"
        return lab, G.ConvexPolyhedron(tuple(G.ConvexPolygon(tuple(_P(G, v) for v in f)) for f in faces))
    raise ValueError(k)


def _nearmiss(d, r):
    """a descriptor of the same kind denoting a different set (robustly: lattice displacement)"""
    k = d[0]
    step = K.mul(gen.rdir(r, 1), r.choice((F(1, 4), F(1, 2), F(1))))
    if k == "P":
        return ("P", K.add(d[1], step))
    if k == "VEC":
        return ("VEC", K.add(d[1], step))
    if k == "H" and r.random() < 0.4:
        c = r.randrange(3)
        return [("H", d[1], K.mul(d[2], -1)),                                   # same origin, opposite direction
                ("H", K.add(d[1], K.mul(d[2], r.choice((1, F(1, 2), -1)))), d[2]),   # origin slid along the carrier
                ("H", K.add(d[1], d[2]), K.mul(d[2], -1))][c]                       # overlapping, opposite sense
    if k in ("L", "PL") and r.random() < 0.12:
        # the point reflection of the object through the origin: parallel, same |offset| / |moment|, another set unless
        # it passes through the origin
        nm_ = gen.origin_mirror(d)
        if gen.ok_coords(nm_, 64, 40):
            return nm_
    if k in ("L", "H"):
        if r.random() < 0.5:
            # displaced support point (off the carrier)
            if K.cross(step, d[2]) == (0, 0, 0):
                if k == "L":
                    return None
            return (k, K.add(d[1], step), d[2])
        nd = K.add(d[2], step)
        if nd == (0, 0, 0) or K.cross(nd, d[2]) == (0, 0, 0):
            return None
        return (k, d[1], nd)
    if k == "S":
        p, q = d[1], d[2]
        e = K.sub(q, p)
        c = r.randrange(8)
        cand = [("S", p, K.add(q, step)),                      # end displaced
                ("S", K.add(q, step), p),                      # swapped representation, other end displaced
                ("S", K.add(p, step), q),                      # start displaced
                ("S", q, K.add(q, step)),                      # chained head-to-tail: a.end == b.start
                ("S", K.sub(p, step), p),                      # chained: b.end == a.start
                ("S", q, K.add(q, e)),                         # collinear continuation
                ("S", p, K.add(p, K.mul(e, F(1, 2)))),         # sub-segment sharing the start
                ("S", K.add(p, K.mul(e, F(1, 2))), q)][c]      # sub-segment sharing the end
        return cand if cand[1] != cand[2] else None
    if k == "PL":
        if r.random() < 0.5:
            if K.dot(step, d[2]) == 0:
                return None
            return ("PL", K.add(d[1], step), d[2])
        nn = K.add(d[2], step)
        if nn == (0, 0, 0) or K.cross(nn, d[2]) == (0, 0, 0):
            return None
        return ("PL", d[1], nn)
    if k == "PG":
        # move the whole polygon, scale it about a vertex, or pull ONE vertex inwards: still valid convex polygons
        if r.random() < 0.2:
            # the polygon of the edge midpoints: same number of vertices, same vertex centroid, strictly inside
            vs = list(d[1])
            m = len(vs)
            return ("PG", tuple(K.mul(K.add(vs[i], vs[(i + 1) % m]), F(1, 2)) for i in range(m)))
        if r.random() < 0.35:
            vs = list(d[1])
            m = len(vs)
            i = r.randrange(m)
            chord_mid = K.mul(K.add(vs[(i - 1) % m], vs[(i + 1) % m]), F(1, 2))
            vs[i] = K.mul(K.add(vs[i], chord_mid), F(1, 2))
            return ("PG", tuple(vs))
        if r.random() < 0.5:
            return ("PG", tuple(K.add(v, step) for v in d[1]))
        c = d[1][0]
        return ("PG", tuple(K.add(c, K.mul(K.sub(v, c), F(1, 2))) for v in d[1]))
    if k == "PH":
        if r.random() < 0.15:
            # shrunk by half about the vertex centroid: same combinatorics, same centre, strictly inside
            c = K.centroid(d[1])
            h = gen._scale_about(d, c, F(1, 2))
            return h if gen.ok_coords(h, 64, 40) else None
        if r.random() < 0.35:
            vs = list(d[1])
            i = r.randrange(len(vs))
            rest = [v for j, v in enumerate(vs) if j != i]
            vs[i] = K.mul(K.add(vs[i], K.centroid(rest)), F(1, 2))       # one vertex pulled towards the others
            h = K.hull3d(vs)
            if h is not None and len(h[1]) == len(vs):
                return h
            return None
        if r.random() < 0.5:
            from ..desc import translate
            return translate(d, step)
        c = d[1][0]
        return gen._scale_about(d, c, F(1, 2))
    return None


def _foreign(G, mu, o, k):
    if k not in ("P", "L", "PL", "PG", "PH"):
        return
    mu.cell("foreign-type")
    own = []
    try:
        if k == "P":
            own = [(o.x, o.y, o.z), [o.x, o.y, o.z], G.Vector(o.x, o.y, o.z), {"x": o.x, "y": o.y, "z": o.z}]
        elif k == "L":
            own = [(o.sv, o.dv), [o.sv, o.dv], o.sv, G.Point(o.sv)]
        elif k == "PL":
            own = [(o.p, o.n), [o.p, o.n], o.p, o.n, tuple(o.general_form())]
        elif k == "PG":
            own = [tuple(o.points), list(o.points), o.plane, o.points[0]]
        elif k == "PH":
            own = [tuple(o.convex_polygons), set(o.point_set), o.convex_polygons[0]]
    except Exception:
        own = []
    for other in [1, "x", None, (1, 2, 3), G.Vector(1, 2, 3) if k != "VEC" else 3.0, object()] + own:
        r, exc, _ = M.call(lambda a, b: a == b, o, other, pure=False)
        if exc is not None:
            mu.fail("%s:foreign-eq-raises-%s" % (k, type(exc).__name__), "%s == %r raised %s" % (gen.NAMES.get(k, k), other, exc))
        elif r is not False:
            mu.fail("%s:foreign-eq-not-False" % k, "%s == %r returned %r" % (gen.NAMES.get(k, k), other, r))


def judge(case):
    G = load()
    d = case["d"]
    k = d[0]
    mu = core.Multi()
    r = random.Random(case["vs"])
    _variant.reread = None
    lab, B = _variant(G, d, r)
    if _variant.reread is not None:
        d = _variant.reread
    A = lift(d, None)
    mu.cell("same:" + k, "variant:" + lab)
    # the variant must really denote the same set (guards the harness itself)
    if k != "VEC" and lab != "any/float-noise-copy":
        same, why = same_set(lower(B), d)
        if not same:
            # (on the pinned tree this never happens in 10^6 variants: the variant constructions themselves are sound)
            mu.fail("%s:%s:object-built-from-exact-data-is-another-set" % (k, lab), "a %s built from exact data of the set (%s) reads back as another set: %s" % (
                gen.NAMES.get(k, k), lab, why))
            return mu.result(outcome=lab)
    res, exc, imp = M.call(lambda a, b: (a == a, a == b, b == a, a != b, hash(a) == hash(b), len({a, b})), A, B)
    key = "%s:%s" % (k, lab)
    if exc is not None:
        mu.fail(key + ":raises-" + M.classify_exc(exc), "comparing / hashing two representations raised %s: %s" % (type(exc).__name__, exc))
    else:
        if imp:
            mu.fail(key + ":operand-modified", imp)
        if not res[0]:
            mu.fail(key + ":not-reflexive", "a == a is %r" % (res[0],))
        if not (res[1] and res[2]) or res[3]:
            mu.fail(key + ":same-set-not-equal", "two representations of one %s: a==b %r, b==a %r, a!=b %r" % (gen.NAMES.get(k, k), res[1], res[2], res[3]))
        elif not res[4] or res[5] != 1:
            mu.fail(key + ":equal-but-hash-differs", "a == b but hash(a)==hash(b) is %r and len({a,b}) = %r" % (res[4], res[5]))
    # near miss
    r2 = random.Random(case["ns"])
    nm = case.get("nm") or _nearmiss(d, r2)
    if case.get("nm"):
        mu.cell("near-miss:coordinate -1 vs -2")
    if nm is not None and gen.ok_coords(nm, 64, 40):
        K.reset()
        truly_same = False
        if k in ("L", "H", "S", "PL"):
            i1 = K.inter(d, nm)
            # same set iff each contains the other: compare via mutual subset
            truly_same = K.subset(d, nm) and K.subset(nm, d)
        if core.admitted() and not truly_same:
            Cc = lift(nm, None)
            mu.cell("different:" + k)
            res, exc, _ = M.call(lambda a, b: (a == b, b == a, a != b), A, Cc)
            if exc is not None:
                mu.fail("%s:near-miss:raises-%s" % (k, M.classify_exc(exc)), "comparing different objects raised %r" % exc)
            elif res[0] or res[1] or not res[2]:
                mu.fail("%s:near-miss:different-sets-equal%s" % (k, "/minus1-vs-minus2" if case.get("nm") else ""), "different %ss compare equal: a==b %r, b==a %r, a!=b %r; %s vs %s" % (
                    gen.NAMES.get(k, k), res[0], res[1], res[2], C.show_short(d, 120), C.show_short(nm, 120)))
    _foreign(G, mu, A, k)
    return mu.result(outcome=lab)


def describe(case):
    return {"d": C.show_short(case["d"], 240)}
