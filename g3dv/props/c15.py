"""C15 - degenerate or invalid constructions are rejected, never returned."""
import itertools
import random
from fractions import Fraction as F

from .. import kernel as K
from .. import monitor as M
from .. import core, gen
from ..desc import lift
from ..lib import load
from . import common as C

ID = "C15"
SENTINEL = True      # prelude cases (factory objects used and moved) are judged by the global-state sentinel here
HASH_ADMISSION = False
BUDGET = {"quick": 16000, "thorough": 320000}
SOFT = {"quick": 70, "thorough": 560}
RULE = ("catalogue of invalid-input classes, each instantiated over lattice positions, poses and magnitudes, exact-degenerate "
        "and degenerate-by-tolerance (1e-12): zero-length Line/Segment/HalfLine in every constructor form; polygons with <3 "
        "distinct, collinear, non-coplanar vertices; planes from zero normal / collinear points / dependent vectors / (0,0,0,d); "
        "dependent Parallelogram / Parallelepiped vectors; Pyramid apex in the base plane; non-closed face sets (faces removed, "
        "translated, dangling extra face, two bodies, duplicated face, one face replaced by a copy of another); circles with n<3; collinear helper on 0/1/non-collinear "
        "points; move() with non-Vector arguments on all seven types; and EVERY unsupported operand-kind pair of intersection / "
        "distance / angle / parallel / orthogonal / volume over 11 kinds (enumerated). A return is a violation for exact-degenerate "
        "input; for degenerate-by-tolerance input only when the returned object fails its invariant hook; distinct by content hash")
OPKINDS = ("P", "L", "PL", "S", "H", "PG", "PH", "VEC", "PY", "int", "None")
GEO = ("P", "L", "PL", "S", "H", "PG", "PH")
ALLOWED_EXC = (NotImplementedError, ValueError, TypeError)
DIST_OK = {("P", "P"), ("P", "L"), ("L", "P"), ("L", "L"), ("P", "PL"), ("PL", "P"), ("L", "PL"), ("PL", "L")}
ANG_OK = {("L", "L"), ("L", "PL"), ("PL", "L"), ("PL", "PL"), ("VEC", "VEC")}
CLASSES = ("zero-line", "zero-segment", "zero-halfline", "polygon-few", "polygon-collinear", "polygon-noncoplanar", "plane-bad",
           "parallelogram-dependent", "parallelepiped-dependent", "pyramid-apex-in-plane", "polyhedron-open", "circle-small-n",
           "collinear-helper", "move-non-vector", "unsupported-operands")
REQUIRED_FUNCS = ("Line.__init__", "Segment.__init__", "HalfLine.__init__", "ConvexPolygon.__init__", "Plane.__init__",
                  "Pyramid.__init__", "ConvexPolyhedron.__init__", "get_circle_point_list", "get_segment_from_point_list",
                  "intersection", "distance", "angle", "parallel", "orthogonal", "volume")
_diag = {"raised": 0, "returned_valid_tolerance_case": 0}


def required_cells(tier):
    q = tier == "quick"
    req = {}
    for c in CLASSES:
        req["class:" + c] = 100 if q else 3000
    req["tolerance-degenerate"] = 300
    req["history:base-polygon-moved-into-place"] = 30 if q else 600
    req["unsupported:exhaustive-pairs"] = len(UNSUP)      # sequential enumeration => every listed (function, kind, kind) at least once
    return req


def _unsupported_list():
    out = []
    for fn in ("intersection", "distance", "angle", "parallel", "orthogonal"):
        for a in OPKINDS:
            for b in OPKINDS:
                if fn == "intersection":
                    if a == "None" or b == "None":
                        continue
                    if a in GEO and b in GEO:
                        continue
                elif fn == "distance":
                    if (a, b) in DIST_OK:
                        continue
                else:
                    if (a, b) in ANG_OK:
                        continue
                out.append((fn, a, b))
    for a in OPKINDS:
        if a not in ("PY", "PH"):
            out.append(("volume", a, None))
    return out


UNSUP = _unsupported_list()


def cases(rng, budget, widx, nworkers, tier):
    i = widx
    ucount = 0
    while True:
        cls = CLASSES[i % len(CLASSES)]
        i += 1
        c = {"cls": cls, "s": rng.getrandbits(30)}
        if cls == "unsupported-operands":
            # sequential enumeration of the whole list, interleaved between the workers
            for _ in range(8):
                j = (ucount * nworkers + widx) % len(UNSUP)
                ucount += 1
                yield {"cls": cls, "s": rng.getrandbits(30), "u": list(UNSUP[j])}
            continue
        yield c


def _P(G, p):
    return G.Point(float(p[0]), float(p[1]), float(p[2]))


def _V(G, p):
    return G.Vector(float(p[0]), float(p[1]), float(p[2]))


def _operand(G, kind, r):
    if kind == "None":
        return None
    if kind == "int":
        return r.randint(-3, 3)
    if kind == "VEC":
        return _V(G, gen.rdir(r))
    if kind == "PY":
        pg = gen.rand_polygon(r, 3, 5, 3)
        n = K.polygon_normal(pg[1])
        return G.Pyramid(lift(pg, None), _P(G, K.add(pg[1][0], n)), direct_call=False)
    return lift(gen.rand_obj(r, kind, small=True), r)


def _expect_raise(mu, fn, key, what, allowed=None, tolerance_case=False, args=()):
    """fn must raise; a return is a violation (for tolerance cases only if the result is malformed)"""
    res, exc, imp = M.call(fn, *args, pure=False)
    if exc is not None:
        _diag["raised"] += 1
        if allowed is not None and not isinstance(exc, allowed):
            mu.fail(key + ":wrong-exception-" + type(exc).__name__, "%s raised %s (%s); NotImplementedError, ValueError or TypeError expected" % (what, type(exc).__name__, exc))
        return
    if isinstance(res, BaseException):
        mu.fail(key + ":returns-exception-instance", "%s RETURNED the exception %r instead of raising it" % (what, res))
        return
    if tolerance_case:
        bad = M.invariants(res) if res is not None else []
        if not bad and res is not None:
            _diag["returned_valid_tolerance_case"] += 1
            return
        mu.fail(key + ":returns-malformed", "%s returned a malformed object: %s" % (what, bad[0] if bad else res))
        return
    mu.fail(key + ":returns", "%s returned %r instead of raising" % (what, res))


def _tiny(r):
    return r.choice((1e-12, 1e-13, 5e-12, -1e-12, 3e-11))


def judge(case):
    G = load()
    cls = case["cls"]
    r = random.Random(case["s"])
    mu = core.Multi()
    mu.cell("class:" + cls)
    p = gen.rpt(r)
    if cls in ("zero-line", "zero-segment", "zero-halfline"):
        ctor = {"zero-line": G.Line, "zero-segment": G.Segment, "zero-halfline": G.HalfLine}[cls]
        form = r.randrange(6 if cls == "zero-line" else 4)
        if form == 5:
            # the radial line Line(v, v) built from ONE Vector object (support and direction are the same object), moved by
            # -v: the move would leave a line without direction and has to be refused like the construction of one
            d_ = gen.rdir(r, 3)
            def radial():
                v_ = _V(G, d_)
                l_ = G.Line(v_, v_)
                return l_.move(_V(G, K.mul(d_, -1)))
            _expect_raise(mu, radial, cls + ":radial-line-moved-onto-its-own-direction-vector", "Line(v, v).move(-v) with one Vector object v")
            return mu.result()
        if form == 0:
            _expect_raise(mu, lambda: ctor(_P(G, p), _P(G, p)), cls + ":same-points", "%s(P, P)" % ctor.__name__)
        elif form == 1:
            _expect_raise(mu, lambda: ctor(_P(G, p), G.Vector(0, 0, 0)), cls + ":zero-vector", "%s(P, zero vector)" % ctor.__name__)
        elif form == 2:
            mu.cell("tolerance-degenerate")
            q = list(map(float, p))
            q[r.randrange(3)] += _tiny(r)
            _expect_raise(mu, lambda: ctor(_P(G, p), G.Point(*q)), cls + ":points-1e-12-apart", "%s(P, P+1e-12)" % ctor.__name__, tolerance_case=True)
        elif form == 3:
            mu.cell("tolerance-degenerate")
            v = [0.0, 0.0, 0.0]
            v[r.randrange(3)] = _tiny(r)
            _expect_raise(mu, lambda: ctor(_P(G, p), G.Vector(*v)), cls + ":vector-1e-12", "%s(P, 1e-12 vector)" % ctor.__name__, tolerance_case=True)
        else:
            _expect_raise(mu, lambda: ctor(_V(G, p), G.Vector(0, 0, 0)), cls + ":vector-vector-zero", "Line(Vector, zero vector)")
        return mu.result()
    if cls == "polygon-few":
        q = K.add(p, gen.rdir(r))
        choice = r.randrange(4)
        pts = [[p, q], [p], [p, q, p, q, q], [p, p, p]][choice]
        _expect_raise(mu, lambda: G.ConvexPolygon(tuple(_P(G, x) for x in pts)), cls + ":%d-points" % len(pts), "ConvexPolygon with %d distinct vertices" % len(set(pts)))
        return mu.result()
    if cls == "polygon-collinear":
        d = gen.rdir(r)
        ts = r.sample([F(x, 2) for x in range(-6, 7)], r.randint(3, 5))
        pts = [K.add(p, K.mul(d, t)) for t in ts]
        if r.random() < 0.35:
            mu.cell("tolerance-degenerate")
            fp = [list(map(float, x)) for x in pts]
            off = K.fl(K.cross(d, gen.rdir(r)))
            nrm = K.norm(off) or 1.0
            eps = abs(_tiny(r))
            fp[-1] = [fp[-1][t] + off[t] / nrm * eps for t in range(3)]
            _expect_raise(mu, lambda: G.ConvexPolygon(tuple(G.Point(*x) for x in fp)), cls + ":collinear-within-1e-12",
                          "ConvexPolygon of points collinear up to 1e-12", tolerance_case=True)
        else:
            _expect_raise(mu, lambda: G.ConvexPolygon(tuple(_P(G, x) for x in pts)), cls + ":exact", "ConvexPolygon of %d collinear points" % len(pts))
        return mu.result()
    if cls == "polygon-noncoplanar":
        pg = gen.rand_polygon(r, 3, 6, 3)
        n = K.polygon_normal(pg[1])
        off = K.mul(gen._reduce(n), r.choice((F(1, 4), F(1, 2), 1, -1)))
        if r.random() < 0.12:
            # a polygon in the plane x_c = -1 (or -2) with a vertex (t, u, w), u, w in {0,1}, plus the off-plane point that
            # differs from that vertex only in t = -2 (-1): CPython hashes the two alike
            c_ = r.randrange(3)
            t0, t1 = r.choice(((-1, -2), (-2, -1)))
            u0, w0 = r.choice((0, 1)), r.choice((0, 1))
            s1, s2 = r.choice((2, 3, 4)), r.choice((2, 3, 4))
            du, dw = (1 if u0 == 0 else -1), (1 if w0 == 0 else -1)
            inpl = [gen.slab_pt(c_, t0, u0, w0), gen.slab_pt(c_, t0, u0 + du * s1, w0), gen.slab_pt(c_, t0, u0 + du * s1, w0 + dw * s2), gen.slab_pt(c_, t0, u0, w0 + dw * s2)]
            twin = gen.slab_pt(c_, t1, u0, w0)
            pts = list(inpl)
            pts.insert(r.randrange(1, 5), twin)
            _expect_raise(mu, lambda: G.ConvexPolygon(tuple(_P(G, x) for x in pts)), cls + ":off-plane-point-hashes-like-a-vertex",
                          "ConvexPolygon with an off-plane point that differs from a vertex only in a coordinate -1 / -2")
            return mu.result()
        if r.random() < 0.25:
            # a kite P0, A, B, R symmetric about the diagonal P0-R, with an off-plane point straight above R listed
            # BEFORE R: both have the same polar angle about the centre seen from P0
            while True:
                u_, v_ = gen.rdir(r, 2), gen.rdir(r, 2)
                if K.cross(u_, v_) != (0, 0, 0) and K.dot(u_, u_) == K.dot(v_, v_):
                    break
            o_ = gen.rpt(r, 3, (1, 2))
            b_ = r.choice((1, 2, F(1, 2)))
            a_ = b_ * r.choice((1, 2, F(3, 2)))
            nn = gen._reduce(K.cross(u_, v_))
            P0, A_, B_ = o_, K.add(o_, K.mul(u_, b_)), K.add(o_, K.mul(v_, b_))
            R_ = K.add(o_, K.mul(K.add(u_, v_), a_))
            Q_ = K.add(R_, K.mul(nn, r.choice((F(1, 2), 1, F(1, 4), -1))))
            pts = [P0, A_, B_, Q_, R_] if r.random() < 0.7 else [P0, A_, B_, R_, Q_]
            _expect_raise(mu, lambda: G.ConvexPolygon(tuple(_P(G, x) for x in pts)), cls + ":lifted-twin-of-the-far-vertex",
                          "ConvexPolygon with an off-plane point straight above the vertex opposite the first one")
            return mu.result()
        if r.random() < 0.4:
            # an off-plane point straight above / below one of the vertices (same polar angle about the centre),
            # placed before or after that vertex in the list
            j = r.randrange(len(pg[1]))
            lifted = K.add(pg[1][j], off)
            pts = list(pg[1])
            pts.insert(j if r.random() < 0.5 else j + 1, lifted)
            if r.random() < 0.5:
                k0 = r.randrange(len(pts))
                pts = pts[k0:] + pts[:k0]
        else:
            pts = list(pg[1]) + [K.add(pg[1][r.randrange(len(pg[1]))], K.add(off, gen.rdir(r, 1)))]
            if K.dot(n, K.sub(pts[-1], pts[0])) == 0:
                return core.not_admitted("accidentally-coplanar")
            r.shuffle(pts)
        _expect_raise(mu, lambda: G.ConvexPolygon(tuple(_P(G, x) for x in pts)), cls, "ConvexPolygon with a vertex off the plane of the others")
        return mu.result()
    if cls == "plane-bad":
        form = r.randrange(6)
        d = gen.rdir(r)
        if form == 0:
            _expect_raise(mu, lambda: G.Plane(_P(G, p), G.Vector(0, 0, 0)), cls + ":zero-normal", "Plane(P, zero normal)")
        elif form == 1:
            a, b = K.add(p, K.mul(d, r.choice((1, 2, F(1, 2))))), K.add(p, K.mul(d, r.choice((-1, 3, F(3, 2)))))
            _expect_raise(mu, lambda: G.Plane(_P(G, p), _P(G, a), _P(G, b)), cls + ":collinear-points", "Plane through three collinear points")
        elif form == 2:
            _expect_raise(mu, lambda: G.Plane(_P(G, p), _V(G, d), _V(G, K.mul(d, r.choice((2, -1, F(1, 2)))))), cls + ":dependent-vectors", "Plane(P, v, k*v)")
        elif form == 3:
            dd = r.choice((0, 0, 1, -2, 3))
            _expect_raise(mu, lambda: G.Plane(0, 0, 0, dd), cls + ":general-form-zero-normal", "Plane(0,0,0,%d)" % dd)
        elif form == 4:
            _expect_raise(mu, lambda: G.Plane(_P(G, p), _V(G, d), G.Vector(0, 0, 0)), cls + ":zero-spanning-vector", "Plane(P, v, zero vector)")
        else:
            _expect_raise(mu, lambda: G.Plane(_P(G, p), _P(G, p), _P(G, K.add(p, d))), cls + ":repeated-point", "Plane(P, P, Q)")
        return mu.result()
    if cls == "parallelogram-dependent":
        d = gen.rdir(r)
        form = r.randrange(3)
        v2 = [K.mul(d, r.choice((2, -1, F(1, 2), 1))), (0, 0, 0), d][form]
        v1 = d if form != 2 else (0, 0, 0)
        _expect_raise(mu, lambda: G.Parallelogram(_P(G, p), _V(G, v1), _V(G, v2)), cls + (":parallel", ":zero-v2", ":zero-v1")[form], "Parallelogram with dependent edge vectors")
        return mu.result()
    if cls == "parallelepiped-dependent":
        u, v = gen.rdir(r), gen.rdir(r)
        form = r.randrange(4)
        if form == 0:
            w = K.add(K.mul(u, r.randint(-2, 2)), K.mul(v, r.randint(-2, 2)))        # coplanar triple
            if K.cross(u, v) == (0, 0, 0) or w == (0, 0, 0):
                w = K.mul(u, 2)
            vs = [u, v, w]
            lab = ":coplanar"
        elif form == 1:
            vs = [u, K.mul(u, r.choice((2, -1))), v]
            lab = ":two-parallel"
        elif form == 2:
            vs = [u, v, (0, 0, 0)]
            lab = ":zero-vector"
        else:
            vs = [(0, 0, 0), u, v]
            lab = ":zero-first-vector"
        r.shuffle(vs) if form < 2 else None
        if K.det3(*vs) != 0:
            return core.not_admitted("accidentally-independent")
        _expect_raise(mu, lambda: G.Parallelepiped(_P(G, p), *[_V(G, x) for x in vs]), cls + lab, "Parallelepiped with dependent edge vectors %s" % C.show_short(tuple(vs)))
        return mu.result()
    if cls == "pyramid-apex-in-plane":
        pg = gen.rand_polygon(r, 3, 6, 3)
        vs = pg[1]
        apex = K.add(vs[0], K.add(K.mul(K.sub(vs[1], vs[0]), F(r.randint(-3, 3), 2)), K.mul(K.sub(vs[2], vs[0]), F(r.randint(-3, 3), 2))))
        tol = r.random() < 0.3
        if tol:
            mu.cell("tolerance-degenerate")
            n = K.fl(K.polygon_normal(vs))
            e = abs(_tiny(r)) / K.norm(n)
            ap = [float(apex[t]) + n[t] * e for t in range(3)]
            fn = lambda: G.Pyramid(lift(pg, None), G.Point(*ap), direct_call=False)
        elif r.random() < 0.4:
            # the base reaches its place through a history: built elsewhere, used, moved in place (the moved receiver
            # is the base), possibly as the negation of the polygon that was built
            from ..desc import translate
            mu.cell("history:base-polygon-moved-into-place")
            w = tuple(F(r.randint(-6, 6), r.choice((1, 2))) for _ in range(3))
            base = lift(translate(pg, K.mul(w, -1)), r)
            if r.random() < 0.3:
                base = -base
            try:
                base.area(), hash(base)
                base.move(_V(G, w))
            except Exception:
                pass
            fn = lambda: G.Pyramid(base, _P(G, apex), direct_call=False)
        else:
            fn = lambda: G.Pyramid(lift(pg, None), _P(G, apex), direct_call=False)
        res, exc, _ = M.call(fn, pure=False)
        if exc is None:
            # a pyramid of zero height is the invalid object itself
            h = res.height() if hasattr(res, "height") else None
            if not tol or (h is not None and h < 1e-10):
                mu.fail(cls + (":within-1e-12" if tol else ":exact") + ":returns", "Pyramid with apex in the base plane was returned (height %r)" % h)
        else:
            _diag["raised"] += 1
        return mu.result()
    if cls == "polyhedron-open":
        ph = gen.rand_polyhedron(r, small=r.random() < 0.6)
        faces = [list(f) for f in ph[2]]
        form = r.randrange(10)
        lab = ("face-removed", "two-faces-removed", "face-translated", "dangling-face", "two-bodies", "duplicated-face",
               "two-loose-polygons", "open-body-plus-loose-polygon", "two-bodies-glued-along-two-edges",
               "face-replaced-by-a-copy-of-another")[form]
        if form == 8:
            # two parallelepipeds O + {a, b, c} and O + {a, 2b, c - b}: they share the edge [O, O+a] and the opposite
            # edge [O+b+c, O+a+b+c]; every edge lies in 2 or 4 faces and V - E + F = 12 - 22 + 12 = 2
            while True:
                a_, b_, c_ = gen.rdir(r, 2), gen.rdir(r, 2), gen.rdir(r, 2)
                if K.det3(a_, b_, c_) != 0:
                    break
            O = gen.rpt(r, 2, (1, 2))

            def pp(u, v, w):
                corners = [K.add(O, K.add(K.mul(u, i), K.add(K.mul(v, j), K.mul(w, k)))) for i in (0, 1) for j in (0, 1) for k in (0, 1)]
                return K.hull3d(corners)
            ph = pp(a_, b_, c_)
            ph2 = pp(a_, K.mul(b_, 2), K.sub(c_, b_))
            faces = [list(f) for f in ph[2]] + [list(f) for f in ph2[2]]
        if form == 8:
            pass
        elif form == 0:
            faces.pop(r.randrange(len(faces)))
        elif form == 1:
            faces.pop(r.randrange(len(faces)))
            faces.pop(r.randrange(len(faces)))
        elif form == 2:
            j = r.randrange(len(faces))
            n = gen._reduce(K.polygon_normal(faces[j]))
            c = K.centroid(ph[1])
            if K.dot(n, K.sub(c, faces[j][0])) > 0:
                n = K.mul(n, -1)
            t = K.mul(n, r.choice((F(1, 2), 1)))
            faces[j] = [K.add(v, t) for v in faces[j]]
        elif form == 3:
            # an extra polygon hinged on one edge, sticking outwards (a flap)
            f = faces[r.randrange(len(faces))]
            a, b = f[0], f[1]
            n = gen._reduce(K.polygon_normal(f))
            c = K.centroid(ph[1])
            if K.dot(n, K.sub(c, f[0])) > 0:
                n = K.mul(n, -1)
            out = K.add(n, K.mul(K.sub(K.mul(K.add(a, b), F(1, 2)), c), 1))
            q = r.choice((1, F(1, 2), 2))
            if r.random() < 0.5:
                faces.append([a, b, K.add(b, K.mul(out, q)), K.add(a, K.mul(out, q))])
            else:
                faces.append([a, b, K.add(K.mul(K.add(a, b), F(1, 2)), K.mul(out, q))])
        elif form == 4:
            ph2 = gen.rand_polyhedron(r, small=True)
            shift = (F(40), F(0), F(0))
            faces += [[K.add(v, shift) for v in f] for f in ph2[2]]
        elif form == 5:
            faces.append(list(faces[r.randrange(len(faces))]))
        elif form == 9:
            # one face missing, another one (with as many vertices, if there is one) listed twice: the same vertices, the
            # same edges, as many faces and as many face-edge incidences as the closed body, V - E + F = 2 - yet the edges of
            # the missing face lie in one face only and those of the doubled face in three
            i = r.randrange(len(faces))
            gone = faces.pop(i)
            same = [f for f in faces if len(f) == len(gone)] or faces
            dup = list(r.choice(same))
            if r.random() < 0.5:
                dup = dup[1:] + dup[:1]
            faces.append(dup)
        elif form == 6:
            # two disjoint polygons: V - E + F = n - n + 1 twice = 2, yet nothing is closed
            f = faces[r.randrange(len(faces))]
            n = gen._reduce(K.polygon_normal(f))
            faces = [list(f), [K.add(v, K.mul(n, r.choice((1, 2, F(1, 2))))) for v in f]]
        else:
            # a body without one face (V-E+F = 1) plus one loose polygon far away (+1)
            faces.pop(r.randrange(len(faces)))
            g = gen.rand_polygon(r, 3, 5, 3)
            faces.append([K.add(v, (F(40), F(0), F(0))) for v in g[1]])
        r.shuffle(faces)

        def build():
            return G.ConvexPolyhedron(tuple(G.ConvexPolygon(tuple(_P(G, v) for v in f)) for f in faces))
        mu.cell("open-face-set:" + lab)
        _expect_raise(mu, build, cls + ":" + lab, "ConvexPolyhedron from a face set that is not a closed polyhedron (%s)" % lab)
        return mu.result()
    if cls == "circle-small-n":
        n = r.choice((0, 1, 2, -1))
        d = _V(G, gen.rdir(r))
        which = r.randrange(4)
        rad = r.choice((0.5, 1.0, 2.5))
        fns = [lambda: G.Circle(_P(G, p), d, rad, n), lambda: G.get_circle_point_list(_P(G, p), d, rad, n),
               lambda: G.Cylinder(_P(G, p), rad, d, n), lambda: G.Cone(_P(G, p), rad, d, n)]
        _expect_raise(mu, fns[which], cls + ":" + ("Circle", "get_circle_point_list", "Cylinder", "Cone")[which], "%s with n=%d" % (("Circle", "get_circle_point_list", "Cylinder", "Cone")[which], n))
        return mu.result()
    if cls == "collinear-helper":
        form = r.randrange(3)
        if form == 0:
            _expect_raise(mu, lambda: G.get_segment_from_point_list([]), cls + ":empty", "get_segment_from_point_list([])")
        elif form == 1:
            _expect_raise(mu, lambda: G.get_segment_from_point_list([_P(G, p)]), cls + ":one-point", "get_segment_from_point_list([P])")
        else:
            d, e = gen.rdir(r), gen.rdir(r)
            if K.cross(d, e) == (0, 0, 0):
                return core.not_admitted("accidentally-collinear")
            pts = [p, K.add(p, d), K.add(p, K.mul(d, 2)), K.add(p, e)]
            ch = r.random()
            if ch < 0.35:
                pts = [p, K.add(p, d), K.add(p, e)]
            elif ch < 0.7:
                # repeated points anywhere in the list (a repeated neighbour must not hide the point that leaves the line)
                base = [p, K.add(p, d), K.add(p, K.mul(d, 2))]
                pts = []
                for q in base:
                    pts += [q] * r.randint(1, 2)
                pts.insert(r.randint(2, len(pts)), K.add(pts[-1] if r.random() < 0.5 else p, e))
                if r.random() < 0.5:
                    j = r.randrange(1, len(pts))
                    pts.insert(j, pts[j - 1])
            _expect_raise(mu, lambda: G.get_segment_from_point_list([_P(G, x) for x in pts]), cls + ":non-collinear", "get_segment_from_point_list(non-collinear points)")
        return mu.result()
    if cls == "move-non-vector":
        k = r.choice(GEO)
        o = lift(gen.rand_obj(r, k, small=True), r)
        arg = r.choice([(1, 2, 3), [1.0, 0.0, 0.0], _P(G, p), 3, 2.5, None, "x",
                        (0, 0, 0), [0.0, 0.0, 0.0], G.origin(), G.Point(0, 0, 0), 0])       # (a zero displacement of the wrong type is still the wrong type)
        _expect_raise(mu, lambda: o.move(arg), "%s:%s" % (cls, k), "%s.move(%r)" % (gen.NAMES[k], arg), allowed=ALLOWED_EXC)
        return mu.result()
    # unsupported operand pairs
    fn, ka, kb = case["u"]
    mu.cell("unsupported:exhaustive-pairs", "unsupported:%s" % fn)
    a = _operand(G, ka, r)
    if fn == "volume":
        _expect_raise(mu, lambda: G.volume(a), "%s:%s(%s)" % (cls, fn, ka), "volume(%s)" % ka, allowed=ALLOWED_EXC)
    else:
        b = _operand(G, kb, r)
        _expect_raise(mu, lambda: getattr(G, fn)(a, b), "%s:%s(%s,%s)" % (cls, fn, ka, kb), "%s(%s, %s)" % (fn, ka, kb), allowed=ALLOWED_EXC)
    return mu.result()


def worker_report():
    return dict(_diag)


def describe(case):
    return dict(case)
