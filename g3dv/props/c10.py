"""C10 - distance is the exact Euclidean distance, symmetric and total."""
import math
import random

from .. import kernel as K
from .. import monitor as M
from .. import core, gen
from ..desc import lift
from ..lib import load
from . import common as C

ID = "C10"
BUDGET = {"quick": 60000, "thorough": 1200000}
SOFT = {"quick": 60, "thorough": 560}
RULE = ("the documented pairs Point-Point, Point-Line, Line-Line, Point-Plane, Line-Plane in both argument orders, cycled; "
        "relative positions built on purpose (coincident, intersecting, parallel, skew, perpendicular, point on / off) plus "
        "random; reference = exact rational squared distance; function form, Line/Plane method form, Point.distance and "
        "the zero-iff-intersecting clause are all evaluated per case; non-trivial = admitted; distinct by content hash")
PAIRS = [("P", "P"), ("P", "L"), ("L", "P"), ("L", "L"), ("P", "PL"), ("PL", "P"), ("L", "PL"), ("PL", "L")]
REQUIRED_FUNCS = ("distance",)


def required_cells(tier):
    q = tier == "quick"
    req = {}
    for a, b in PAIRS:
        req["pair:%s,%s" % (a, b)] = 200 if q else 5000
        req["pair:%s,%s/zero" % (a, b)] = 20
        req["pair:%s,%s/positive" % (a, b)] = 20
    for s in ("L,L/parallel-distinct", "L,L/coincident", "L,L/skew", "L,L/crossing", "L,PL/in-plane", "L,PL/parallel-off-plane",
              "L,PL/crossing", "PL,L/parallel-off-plane"):
        req["scen:" + s] = 20
    for hc in ("used-then-moved/receiver", "used-then-moved/returned", "moved/receiver"):
        req["pose:history/" + hc] = 30
    req["gen:derived/plane-normals"] = 100
    req["gen:derived/sections-of-parallel-planes"] = 100
    return req


def cases(rng, budget, widx, nworkers, tier):
    i = widx
    while True:
        ka, kb = PAIRS[i % len(PAIRS)]
        i += 1
        (a, b), label = gen.gen_pair(rng, ka, kb)
        if ka == "L" and kb == "L" and rng.random() < 0.15:
            # coincident lines in another representation
            a = gen.rand_flat(rng, "L")
            b = ("L", K.add(a[1], K.mul(a[2], rng.choice((0, 1, -2, gen.F(1, 2))))), K.mul(a[2], rng.choice((1, -1, 3, gen.F(1, 2)))))
            label = "coincident"
        if ka == "L" and rng.random() < 0.04:
            a = ("L", (gen.F(0), gen.F(0), gen.F(0)), a[2])          # supported by the origin itself
            label = "line-supported-by-the-origin"
        yield C.maybe_hist({"a": a, "b": b, "label": label, "ls": rng.getrandbits(30)}, rng)
        if ka == "L" and rng.random() < 0.25:
            # operands the library derived itself: perpendiculars of two parallel planes given with differently scaled
            # normals (Line(A, plane.n)), or the section lines of two parallel planes with a third plane.  Their direction
            # vectors are normalised floats: exactly parallel in the geometry, equal only up to rounding in the numbers
            n = gen.rdir(rng, 3)
            k = rng.choice((2, 3, -1, -2, gen.F(1, 2), 5, -3))
            A, B = gen.rpt(rng), gen.rpt(rng)
            if rng.random() < 0.5:
                yield {"a": ("L", A, n), "b": ("L", B, n), "label": "derived/plane-normals", "ls": 0,
                       "derive": {"mode": "normals", "A": A, "B": B, "n": n, "k": k}}
            else:
                m = gen.rdir(rng, 3)
                if K.cross(m, n) == (0, 0, 0):
                    continue
                Cq = gen.rpt(rng)
                K.reset()
                la, lb = K.inter(("PL", A, n), ("PL", Cq, m)), K.inter(("PL", B, K.mul(n, k)), ("PL", Cq, m))
                if la is None or lb is None or la[0] != "L" or lb[0] != "L":
                    continue
                yield {"a": la, "b": lb, "label": "derived/sections-of-parallel-planes", "ls": 0,
                       "derive": {"mode": "sections", "A": A, "B": B, "n": n, "k": k, "C": Cq, "m": m}}


def _derived(G, dv):
    P = lambda p: G.Point(*[float(c) for c in p])
    V = lambda p: G.Vector(*[float(c) for c in p])
    pl1, pl2 = G.Plane(P(dv["A"]), V(dv["n"])), G.Plane(P(dv["B"]), V(K.mul(dv["n"], dv["k"])))
    if dv["mode"] == "normals":
        return G.Line(P(dv["A"]), pl1.n), G.Line(P(dv["B"]), pl2.n)
    q = G.Plane(P(dv["C"]), V(dv["m"]))
    return G.intersection(pl1, q), G.intersection(pl2, q)


def _scen(a, b):
    ka, kb = a[0], b[0]
    if ka == "L" and kb == "L":
        c = K.cross(a[2], b[2])
        w = K.sub(b[1], a[1])
        if c == (0, 0, 0):
            return "L,L/coincident" if K.cross(w, a[2]) == (0, 0, 0) else "L,L/parallel-distinct"
        return "L,L/crossing" if K.dot(w, c) == 0 else "L,L/skew"
    if {ka, kb} == {"L", "PL"}:
        l, p = (a, b) if ka == "L" else (b, a)
        if K.dot(l[2], p[2]) != 0:
            return "%s,%s/crossing" % (ka, kb)
        on = K.dot(p[2], K.sub(l[1], p[1])) == 0
        return "%s,%s/%s" % (ka, kb, "in-plane" if on else "parallel-off-plane")
    return None


def judge(case):
    G = load()
    a, b, pre = C.effective(case)
    if a is None:
        return core.not_admitted("alias-reread")
    d2 = K.dist2(a, b)
    K.inter(a, b)                      # records the incidence margins of the pair
    if not core.admitted():
        return core.not_admitted("margin")
    want = math.sqrt(float(d2))
    if 0 < want < core.MARGIN:
        return core.not_admitted("tiny-distance")
    ka, kb = a[0], b[0]
    mu = core.Multi()
    key = "%s,%s" % (ka, kb)
    mu.cell("pair:" + key, "pair:%s/%s" % (key, "zero" if d2 == 0 else "positive"), "gen:" + case["label"])
    mu.cell(*C.hist_cell(case))
    sc = _scen(a, b)
    if sc:
        mu.cell("scen:" + sc)
    if case.get("derive"):
        try:
            x, y = _derived(G, case["derive"])
        except Exception as e:
            mu.fail("derived-operands:raises-" + type(e).__name__, "building library-derived lines raised %r" % e)
            return mu.result()
        if M.kind(x) != "L" or M.kind(y) != "L":
            return core.not_admitted("derived-operands-not-lines (C01's business)")
    else:
        x, y = pre or C.lift_pair(case)
    forms = [("distance(a,b)", G.distance, x, y), ("distance(b,a)", G.distance, y, x)]
    if ka in ("L", "PL"):
        forms.append(("a.distance(b)", lambda p, q: p.distance(q), x, y))
    if kb in ("L", "PL"):
        forms.append(("b.distance(a)", lambda p, q: p.distance(q), y, x))
    if ka == "P" and kb == "P":
        forms.append(("Point.distance(Point)", lambda p, q: p.distance(q), x, y))
    vals = []
    for tag, fn, p, q in forms:
        res, exc, imp = M.call(fn, p, q)
        if exc is not None:
            mu.fail("%s:%s:raises-%s%s" % (key, tag, M.classify_exc(exc), ("/" + sc.split("/")[1]) if sc else ""),
                    "%s raised %s: %s (exact distance %r)" % (tag, type(exc).__name__, exc, want))
            continue
        if imp:
            mu.fail("%s:%s:operand-modified" % (key, tag), imp)
        if M.bad_number(res) or not isinstance(res, (int, float)) or isinstance(res, bool):
            try:
                res = float(res)
            except Exception:
                mu.fail("%s:%s:not-a-number" % (key, tag), "%s returned %r" % (tag, res))
                continue
        if res < 0:
            mu.fail("%s:%s:negative" % (key, tag), "%s returned %r" % (tag, res))
        if abs(res - want) > 1e-9 * max(1.0, want):
            mu.fail("%s:%s:wrong-value" % (key, tag), "%s = %r, exact %r" % (tag, res, want))
        vals.append(res)
    if vals and mu.viol is None:
        res, exc, _ = M.call(G.intersection, x, y)
        if exc is None:
            meets = res is not None
            if (vals[0] < 1e-9) != meets:
                mu.fail("%s:zero-iff-intersecting" % key, "distance=%r but intersection is %s" % (vals[0], "not None" if meets else "None"))
    return mu.result(outcome=repr(want))


describe = C.describe_pair
