"""C03 - intersection of two convex polygons / polyhedra is the exact convex set."""
import math
import random

from .. import kernel as K
from .. import monitor as M
from .. import core, gen
from ..desc import lift, lower, same_set
from ..lib import load
from . import common as C

ID = "C03"
BUDGET = {"quick": 8000, "thorough": 100000}
SOFT = {"quick": 80, "thorough": 560}
RULE = ("PG-PG, PG-PH, PH-PG, PH-PH cycled; lattice bodies in labelled relative positions (shared features, translated copies by "
        "lattice / edge / half-edge vectors, scaled copies, coplanar polygons, bodies built on (part of) a face, random) judged "
        "against exact vertex enumeration; every 8th case is a pair of randomly rotated (irrational) copies judged against the "
        "same enumeration in float arithmetic under a general-position margin; result measures re-checked against exact "
        "length/area/volume; non-trivial = admitted and compared; distinct by content hash")
PAIRS = [("PG", "PG"), ("PG", "PH"), ("PH", "PG"), ("PH", "PH")]
REQUIRED_FUNCS = ("inter_convexpolygon_convexpolygon", "inter_convexpolygon_convexPolyhedron",
                  "inter_convexpolyhedron_convexpolyhedron", "get_segment_convexpolygon_intersection_point_set",
                  "ConvexPolygon._check_and_sort_points", "ConvexPolyhedron._euler_check")
_inner = C.InnerShadow(lambda ka, kb: ka in ("PG", "PH") and kb in ("PG", "PH"), cap=3, p=0.5)


def setup():
    _inner.install()


_diag = {"measure_checks": 0, "rotated_cases": 0, "rotated_admitted": 0}


def required_cells(tier):
    q = tier == "quick"
    req = {}
    for a, b in PAIRS:
        req["pair:%s,%s" % (a, b)] = 40 if q else 1000
        kinds = ["None", "P", "S", "PG"] + (["PH"] if (a, b) == ("PH", "PH") else [])
        for r in kinds:
            req["pair:%s,%s->%s" % (a, b, r)] = 2 if q else 30
    for g in ("shared-features", "translated-copy", "scaled-copy", "coplanar", "on-face", "random", "rotated", "small-integer-boxes", "strictly-nested",
              "common-part-is-the-minus1-minus2-slab-cube", "inscribed"):
        req["gen:" + g] = 10 if q else 200
    for hc in ("used-then-moved/receiver", "used-then-moved/returned", "moved/receiver"):
        req["pose:history/" + hc] = 30
    return req


def _rot(rng):
    """random rotation matrix (float)"""
    while True:
        q = [rng.gauss(0, 1) for _ in range(4)]
        n = math.sqrt(sum(x * x for x in q))
        if n > 1e-3:
            break
    w, x, y, z = (c / n for c in q)
    return ((1 - 2 * (y * y + z * z), 2 * (x * y - z * w), 2 * (x * z + y * w)),
            (2 * (x * y + z * w), 1 - 2 * (x * x + z * z), 2 * (y * z - x * w)),
            (2 * (x * z - y * w), 2 * (y * z + x * w), 1 - 2 * (x * x + y * y)))


def _apply(R, t, d):
    def pt(p):
        p = K.fl(p)
        return tuple(R[i][0] * p[0] + R[i][1] * p[1] + R[i][2] * p[2] + t[i] for i in range(3))
    if d[0] == "PG":
        return ("PG", tuple(pt(v) for v in d[1]))
    return ("PH", tuple(pt(v) for v in d[1]), tuple(tuple(pt(v) for v in f) for f in d[2]))


def cases(rng, budget, widx, nworkers, tier):
    sm = lambda: tier == "quick" or rng.random() < 0.5      # thorough: half of the bodies from the full families (prisms, bipyramids, general hulls)
    i = widx
    while True:
        ka, kb = PAIRS[i % len(PAIRS)]
        i += 1
        if i % 8 == 0:
            a = gen.rand_obj(rng, ka, small=sm())
            b = gen.rand_obj(rng, kb, small=sm())
            # bring b near a so that overlaps are frequent, then rotate both independently
            ca, cb = K.centroid(a[1]), K.centroid(b[1])
            sh = tuple(float(ca[j] - cb[j]) + rng.uniform(-1.0, 1.0) for j in range(3))
            a2 = _apply(_rot(rng), (0.0, 0.0, 0.0), a)
            b2 = _apply(_rot(rng), sh, b)
            yield {"a": a2, "b": b2, "label": "rotated", "ls": rng.getrandbits(30), "float": True}
            continue
        (a, b), label = gen.body_pair(rng, ka, kb, small=sm()) if (ka, kb) != ("PH", "PG") else gen.gen_pair(rng, ka, kb, small=sm())
        yield C.maybe_hist({"a": a, "b": b, "label": label, "ls": rng.getrandbits(30)}, rng)


def judge(case):
    G = load()
    a, b = case["a"], case["b"]
    fm = bool(case.get("float"))
    _inner.new_case()
    if fm:
        K.reset(tol=1e-9)
        _diag["rotated_cases"] += 1
    exp = K.inter(a, b)
    if not core.admitted():
        return core.not_admitted("margin" + ("-rotated" if fm else ""))
    if fm:
        _diag["rotated_admitted"] += 1
    ka, kb = a[0], b[0]
    mu = core.Multi()
    mu.cell("pair:%s,%s" % (ka, kb), "pair:%s,%s->%s" % (ka, kb, C.kname(exp)), "gen:" + case["label"])
    mu.cell(*C.hist_cell(case))
    for o in (a, b):
        if o[0] == "PH":
            mu.cell("body:" + gen.family_of(o))
    x, y = C.lift_pair(case)
    kb_ = "%s,%s" % (ka, kb)
    res = C.run_inter(G.intersection, x, y, exp, "intersection(a,b)", mu, kb_)
    C.run_inter(lambda p, q: p.intersection(q), x, y, exp, "a.intersection(b)", mu, kb_, descs=None if fm else (a, b))
    if mu.viol is None and res is not None and not fm:
        _measures(res, exp, mu, kb_)
    _inner.finish(mu)
    return mu.result(outcome=C.show_short(exp, 120))


def _rel(a, b):
    return abs(a - b) <= 1e-9 * max(1.0, abs(b))


def _measures(res, exp, mu, kb_):
    """redundant check that the returned object is usable: its measures are the exact ones"""
    saved = (K.ST.margin, K.ST.decisions)
    try:
        k = C.kname(exp)
        _diag["measure_checks"] += 1
        if k == "S":
            got, want = res.length(), K.seg_len(exp[1], exp[2])
            if not _rel(got, want):
                mu.fail(kb_ + ":result-length-wrong", "Segment result length %r, exact %r" % (got, want))
        elif k == "PG":
            body = K.as_body(exp)
            got, want = res.area(), K.polygon_area(body[1])
            if not _rel(got, want):
                mu.fail(kb_ + ":result-area-wrong", "polygon result area %r, exact %r" % (got, want))
            got, want = res.length(), K.polygon_perimeter(body[1])
            if not _rel(got, want):
                mu.fail(kb_ + ":result-perimeter-wrong", "polygon result perimeter %r, exact %r" % (got, want))
        elif k == "PH":
            body = K.as_body(exp)
            got, want = res.volume(), float(K.polyhedron_volume(body))
            if not _rel(got, want):
                mu.fail(kb_ + ":result-volume-wrong", "polyhedron result volume %r, exact %r" % (got, want))
            got, want = res.area(), K.polyhedron_area(body)
            if not _rel(got, want):
                mu.fail(kb_ + ":result-area-wrong", "polyhedron result area %r, exact %r" % (got, want))
    finally:
        K.ST.margin, K.ST.decisions = saved


def worker_report():
    _h = {"operand_histories": dict(C.HIST_STATS)}
    d = dict(_diag)
    d.update(_inner.report())
    d.update(_h)
    return d


describe = C.describe_pair
