"""C11 - angle, parallel and orthogonal agree with exact direction geometry."""
import math
import random
from fractions import Fraction as F

from .. import kernel as K
from .. import monitor as M
from .. import core, gen
from ..desc import lift
from ..lib import load
from . import common as C

ID = "C11"
BUDGET = {"quick": 80000, "thorough": 2000000}
SOFT = {"quick": 60, "thorough": 560}
RULE = ("ordered pairs of lattice directions: exhaustive over |c|<=2 in the thorough tier (124^2), sampled |c|<=4 otherwise, "
        "plus for every direction its multiples by {1/2,1,2,3,5,7,-1,-2,-1/2} (exactly parallel / anti-parallel) and exact "
        "perpendiculars; each under the type combinations Line/Line, Line/Plane, Plane/Line, Plane/Plane, Vector/Vector; "
        "reference = exact cos^2; non-trivial = admitted (no 0<sin<1e-3 or 0<|cos|<1e-3); distinct by content hash")
COMBOS = [("L", "L"), ("L", "PL"), ("PL", "L"), ("PL", "PL"), ("VEC", "VEC")]
MULTS = (F(1, 2), 1, 2, 3, 5, 7, -1, -2, F(-1, 2))
REQUIRED_FUNCS = ("angle", "parallel", "orthogonal", "acute", "Vector.angle", "Vector.parallel", "Vector.orthogonal")
ASSUMPTIONS = ["Vector.angle itself (unfolded, [0,pi]) belongs to C18; here the module-level functions and the Line/Plane methods"]


def required_cells(tier):
    q = tier == "quick"
    req = {}
    for a, b in COMBOS:
        for r in ("parallel", "antiparallel", "perpendicular", "generic"):
            req["combo:%s,%s/%s" % (a, b, r)] = 50 if q else 2000
    req["history:direction-vector-reused-after-assignment"] = 300
    req["history:construction-points-moved-before-first-use"] = 300
    req["history:factory-objects-used-then-directions-compared"] = 50
    req["nt:Fraction"] = 1000
    req["history:plane-built-from-a-unit-vector-the-caller-then-redirects"] = 100
    req["nt:int"] = 1000
    req["gen:near-parallel"] = 1000
    return req


def _dirs(R):
    rg = range(-R, R + 1)
    return [(F(a), F(b), F(c)) for a in rg for b in rg for c in rg if (a, b, c) != (0, 0, 0)]


def cases(rng, budget, widx, nworkers, tier):
    d2 = _dirs(2)
    n = 0
    if tier == "thorough":
        # exhaustive block over |c|<=2, partitioned between the workers
        idx = 0
        for u in d2:
            for v in d2:
                idx += 1
                if idx % nworkers != widx:
                    continue
                yield {"u": u, "v": v, "combo": idx % len(COMBOS), "label": "exhaustive-2", "ls": idx}
    while True:
        r = rng.random()
        u = rng.choice(d2) if rng.random() < 0.5 else gen.rdir(rng, 4)
        if r < 0.3:
            v = K.mul(u, rng.choice(MULTS))
            label = "multiple"
        elif r < 0.5:
            w = gen.rdir(rng, 3)
            v = K.cross(u, w)
            if v == (0, 0, 0):
                continue
            v = gen._reduce(v)
            label = "perpendicular"
        elif r < 0.6:
            # nearly parallel but well outside the tolerance: a long lattice direction and the same one step off
            base = rng.choice(d2)
            sc = rng.choice((4, 6, 8))
            u = K.mul(base, sc)
            e = [F(0), F(0), F(0)]
            e[rng.randrange(3)] = rng.choice((F(1, 4), F(-1, 4), F(1, 2), F(-1, 2), F(1), F(-1)))
            v = K.add(K.mul(u, rng.choice((1, -1))), tuple(e))
            if K.cross(u, v) == (0, 0, 0):
                continue
            label = "near-parallel"
        else:
            v = gen.rdir(rng, 4)
            label = "random"
        n += 1
        if n % 97 == 0:
            ax = [F(0)] * 3
            ax[rng.randrange(3)] = F(rng.choice((1, -1)))
            w = gen.rdir(rng, 3)
            if K.cross(w, tuple(ax)) != (0, 0, 0):
                yield {"k": "redirect", "n": tuple(ax), "w": w, "u": u, "v": v, "combo": 0, "label": "redirect", "p": gen.rpt(rng), "o": gen.rdir(rng, 3)}
                continue
        if n % 400 == 0:
            yield {"k": "factory", "w": [float(c) for c in gen.rdir(rng, 2)], "u": u, "v": v, "combo": 0, "label": "factory"}
            continue
        c_ = {"u": u, "v": v, "combo": n % len(COMBOS), "label": label, "ls": rng.getrandbits(30),
              "p": gen.rpt(rng), "q": gen.rpt(rng)}
        if rng.random() < 0.1:
            c_["hist"] = {"who": rng.randrange(2), "w0": gen.rdir(rng, 4), "list": rng.random() < 0.4}
        elif rng.random() < 0.06:
            c_["args_moved"] = [[rng.randint(-8, 8) / 4.0 for _ in range(3)] for _ in range(2)]
        yield c_


def _mk(G, kind, p, d, r, hist=None, nt=float, args_moved=None):
    if hist is None:
        if kind == "VEC":
            return G.Vector(*[nt(c) for c in d])
        if args_moved and kind in ("PL", "L"):
            # the caller goes on using its own second / third construction Points (moves one, overwrites the other)
            # before the object is used for the first time; the first Point is left alone (a Plane shares it by design)
            from ..desc import plane_basis
            P0 = G.Point(*[float(c) for c in p])
            if kind == "L":
                P1 = G.Point(*[float(c) for c in K.add(p, d)])
                o = G.Line(P0, P1)
                P1.move(G.Vector(*args_moved[0]))
                return o
            bu, bv = plane_basis(d)
            P1 = G.Point(*[float(c) for c in K.add(p, bu)])
            P2 = G.Point(*[float(c) for c in K.add(p, bv)])
            o = G.Plane(P0, P1, P2)
            P2.move(G.Vector(*args_moved[0]))
            for i in range(3):
                P1[i] = P1[i] + args_moved[1][i]
            return o
        return lift((kind, p, d), r, nt)
    # history: the direction Vector is first another direction, is used (angle / length / parallel),
    # and is then overwritten coordinate by coordinate before the operand is built from it
    w0 = hist["w0"]
    if hist.get("list"):
        # the vector is built from a list that the caller later refills with other numbers
        buf = [float(c) for c in d]
        vec = G.Vector(buf)
        other = G.Vector(1.0, -2.0, 0.5)
        try:
            vec.length(), G.angle(vec, other)
        except Exception:
            pass
        for i in range(3):
            buf[i] = float(w0[i])
        if kind == "VEC":
            return vec
        P = G.Point(*[float(c) for c in p])
        return G.Line(P, vec) if kind == "L" else G.Plane(P, vec)
    vec = G.Vector(*[float(c) for c in w0])
    other = G.Vector(1.0, -2.0, 0.5)
    for fn in (lambda: vec.length(), lambda: G.angle(vec, other), lambda: G.parallel(vec, other), lambda: vec.normalized(), lambda: hash(vec)):
        try:
            fn()
        except Exception:
            pass
    for i in range(3):
        vec[i] = float(d[i])
    if kind == "VEC":
        return vec
    P = G.Point(*[float(c) for c in p])
    return G.Line(P, vec) if kind == "L" else G.Plane(P, vec)


def _judge_factory(case):
    """objects obtained from the library's factory functions are used as a program would (a line through Vector.zero()
    is moved by w, a unit vector is edited); afterwards directions equal to w / to the edited vector are compared with
    directions they are NOT parallel to"""
    G = load()
    mu = core.Multi()
    mu.cell("history:factory-objects-used-then-directions-compared")
    V = G.Vector
    w = tuple(case["w"])
    try:
        l = G.Line(V.zero(), V(1.0, 2.0, 2.0))
        l.move(V(*w))
        e = G.x_unit_vector()
        e[1] = 3.0
        z = V.zero()
        z[2] = z[2] + 0.0
    except Exception as ex:
        mu.fail("factory:raises-" + type(ex).__name__, "ordinary use of factory objects raised %r" % ex)
        return mu.result()
    others = [(1.0, 0.0, 0.0), (0.0, 1.0, 0.0), (0.0, 0.0, 1.0), (1.0, 1.0, 1.0)]
    zz = V.zero()
    znow = (float(zz[0]), float(zz[1]), float(zz[2]))
    ee = G.x_unit_vector()
    enow = (float(ee[0]), float(ee[1]), float(ee[2]))
    # (whatever zero() / x_unit_vector() hand out now is a direction like any other for this purpose)
    for d in (w, (1.0, 3.0, 0.0)) + tuple(t for t in (znow, enow) if t != (0.0, 0.0, 0.0) and max(abs(c) for c in t) < 1e6):
        for o in others:
            cr = K.cross(d, o)
            if cr == (0, 0, 0) or cr == (0.0, 0.0, 0.0):
                continue
            dot = K.dot(d, o)
            want_ang = math.acos(min(1.0, abs(dot) / (K.norm(d) * K.norm(o))))
            for mk in (lambda t: V(*t), lambda t: G.Line(G.Point(0.5, 1.0, -2.0), V(*t)), lambda t: G.Plane(G.Point(1.0, 0.0, 2.0), V(*t))):
                a, b = mk(d), mk(o)
                for x, y in ((a, b), (b, a)):
                    try:
                        par, ang = G.parallel(x, y), G.angle(x, y)
                    except Exception as ex:
                        mu.fail("factory:raises-" + type(ex).__name__, "parallel / angle raised %r" % ex)
                        return mu.result()
                    if par:
                        mu.fail("parallel:says-True/after-factory-objects-were-used", "parallel(%r, %r) is True for directions %r and %r" % (x, y, d, o))
                        return mu.result()
                    if abs(ang - want_ang) > 1e-6:
                        mu.fail("angle:wrong-value/after-factory-objects-were-used", "angle(%r, %r) = %r, exact %r" % (x, y, ang, want_ang))
                        return mu.result()
    return mu.result()


def _judge_redirect(case):
    """Plane(P, v) from a caller's vector v of length exactly 1; the caller then overwrites v with another direction.
    Whether the plane keeps its own copy or follows v is its business - its normal is read back, and angle / parallel /
    orthogonal against another direction must be those of THAT normal"""
    G = load()
    mu = core.Multi()
    mu.cell("history:plane-built-from-a-unit-vector-the-caller-then-redirects")
    n, w, o = case["n"], case["w"], case["o"]
    try:
        vec = G.Vector(*[float(c) for c in n])
        pl = G.Plane(G.Point(*[float(c) for c in case["p"]]), vec)
        for i in range(3):
            vec[i] = float(w[i])
        now = tuple(F(float(c)) for c in pl.n)
    except Exception as ex:
        mu.fail("redirect:raises-" + type(ex).__name__, "building a plane from a unit vector / editing the vector raised %r" % ex)
        return mu.result()
    if any(c.denominator > 64 for c in now) or now == (0, 0, 0):
        return core.not_admitted("normal-not-readable-exactly")
    other = G.Line(G.Point(0.5, -1.0, 2.0), G.Vector(*[float(c) for c in o]))
    c2 = K.cos2(now, o)
    cr = K.cross(now, o)
    dotv = K.dot(now, o)
    want_par, want_orth = (dotv == 0), (cr == (0, 0, 0))            # line vs plane
    want_ang = math.asin(min(1.0, math.sqrt(float(c2))))
    for x, y in ((pl, other), (other, pl)):
        try:
            ang, par, orth = G.angle(x, y), G.parallel(x, y), G.orthogonal(x, y)
        except Exception as ex:
            mu.fail("redirect:raises-" + type(ex).__name__, "angle / parallel / orthogonal raised %r" % ex)
            return mu.result()
        if abs(ang - want_ang) > 1e-6:
            mu.fail("PL,L:angle:wrong-value/plane-whose-normal-vector-was-redirected", "angle = %r, the plane's own normal %r gives %r" % (ang, tuple(float(c) for c in now), want_ang))
        if bool(par) != want_par or bool(orth) != want_orth:
            mu.fail("PL,L:parallel-orthogonal:wrong/plane-whose-normal-vector-was-redirected", "parallel %r orthogonal %r, the plane's own normal gives %r %r" % (par, orth, want_par, want_orth))
    return mu.result()


def judge(case):
    if case.get("k") == "factory":
        return _judge_factory(case)
    if case.get("k") == "redirect":
        return _judge_redirect(case)
    G = load()
    u, v = case["u"], case["v"]
    ka, kb = COMBOS[case["combo"]]
    c2 = K.cos2(u, v)
    cr = K.cross(u, v)
    s2 = K.dot(cr, cr) / (K.dot(u, u) * K.dot(v, v))
    sin, cos = math.sqrt(float(s2)), math.sqrt(float(c2))
    if (0 < sin < core.MARGIN) or (0 < cos < core.MARGIN):
        return core.not_admitted("margin")
    dotuv = K.dot(u, v)
    rel = "perpendicular" if dotuv == 0 else ("generic" if s2 != 0 else ("parallel" if dotuv > 0 else "antiparallel"))
    lineplane = {ka, kb} == {"L", "PL"}
    if lineplane:
        want_angle = math.asin(min(1.0, cos))         # angle to the plane itself
        want_par, want_orth = (dotuv == 0), (s2 == 0)
    else:
        want_angle = math.acos(min(1.0, cos))
        want_par, want_orth = (s2 == 0), (dotuv == 0)
    mu = core.Multi()
    key = "%s,%s" % (ka, kb)
    mu.cell("combo:%s/%s" % (key, rel), "gen:" + case["label"])
    r = random.Random(case.get("ls", 0))
    p = case.get("p", (F(0), F(0), F(0)))
    q = case.get("q", (F(1), F(2), F(-1)))
    h = case.get("hist")
    nt = float
    if case.get("ls", 0) % 4 == 0 and all(F(c).denominator == 1 for c in tuple(u) + tuple(v)):
        # plain Python ints as coordinates (points rounded to integers; the directions are what matters here)
        nt = int
        p = tuple(F(int(c)) for c in p)
        q = tuple(F(int(c)) for c in q)
        mu.cell("nt:int")
    elif case.get("ls", 0) % 4 == 1 and not h:
        # exact rationals, with the directions halved or quartered (the same directions: angles are unchanged)
        nt = F
        sc = (F(1, 2), F(1, 4), F(3, 2))[(case.get("ls", 0) // 4) % 3]
        u, v = K.mul(u, sc), K.mul(v, sc)
        mu.cell("nt:Fraction")
    am = case.get("args_moved")
    if am and nt is float and ("PL" in (ka, kb) or "L" in (ka, kb)):
        mu.cell("history:construction-points-moved-before-first-use")
    else:
        am = None
    x = _mk(G, ka, p, u, r, h if h and h["who"] == 0 else None, nt, am)
    y = _mk(G, kb, q, v, r, h if h and h["who"] == 1 else None, nt, am)
    if h:
        mu.cell("history:direction-vector-reused-after-assignment")
    forms = [("f(a,b)", lambda f, a, b: f(a, b), x, y), ("f(b,a)", lambda f, a, b: f(a, b), y, x)]
    if ka != "VEC":
        forms.append(("a.f(b)", None, x, y))
        forms.append(("b.f(a)", None, y, x))
    for fname, want in (("angle", want_angle), ("parallel", want_par), ("orthogonal", want_orth)):
        fn = getattr(G, fname)
        for tag, _, a, b in forms:
            tg = tag.replace("f", fname, 1) if tag.startswith("f") else tag.replace(".f(", "." + fname + "(")
            if tag.startswith("f"):
                res, exc, imp = M.call(fn, a, b)
            else:
                res, exc, imp = M.call(lambda s, o: getattr(s, fname)(o), a, b)
            if exc is not None:
                mu.fail("%s:%s:raises-%s/%s" % (key, fname, M.classify_exc(exc), rel),
                        "%s raised %s: %s for %s directions" % (tg, type(exc).__name__, exc, rel))
                continue
            if imp:
                mu.fail("%s:%s:operand-modified" % (key, fname), imp)
            if fname == "angle":
                if M.bad_number(res) or not isinstance(res, (int, float)):
                    mu.fail("%s:angle:not-a-number" % key, "%s returned %r" % (tg, res))
                elif res < -1e-12 or res > math.pi / 2 + 1e-12:
                    mu.fail("%s:angle:out-of-range" % key, "%s = %r outside [0, pi/2]" % (tg, res))
                elif abs(res - want) > 1e-6:
                    mu.fail("%s:angle:wrong-value/%s" % (key, rel), "%s = %r, exact %r" % (tg, res, want))
            else:
                if bool(res) != want:
                    mu.fail("%s:%s:says-%s/%s" % (key, fname, bool(res), rel), "%s = %r, exact %s" % (tg, res, want))
    return mu.result(outcome="%s angle=%.6f" % (rel, want_angle))


def describe(case):
    return {"u": C.show_short(case["u"]), "v": C.show_short(case["v"]), "types": COMBOS[case["combo"]], "label": case["label"]}
