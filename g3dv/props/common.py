"""Helpers shared by the intersection-style property modules."""
import random

from .. import kernel as K
from .. import monitor as M
from .. import core
from ..desc import lift, lower, same_set, show
from ..gen import NAMES
from .. import gen
from ..lib import load

ONE_D = ("L", "H", "S")

# result kinds each unordered flat pair can produce (geometry, not documentation)
FLAT_RESULTS = {
    ("P", "P"): ("None", "P"), ("P", "L"): ("None", "P"), ("P", "H"): ("None", "P"),
    ("P", "S"): ("None", "P"), ("P", "PL"): ("None", "P"),
    ("L", "L"): ("None", "P", "L"), ("L", "PL"): ("None", "P", "L"), ("L", "S"): ("None", "P", "S"),
    ("H", "L"): ("None", "P", "H"), ("PL", "PL"): ("None", "L", "PL"), ("PL", "S"): ("None", "P", "S"),
    ("H", "PL"): ("None", "P", "H"), ("S", "S"): ("None", "P", "S"), ("H", "S"): ("None", "P", "S"),
    ("H", "H"): ("None", "P", "S", "H"),
}


def results_for(ka, kb):
    return FLAT_RESULTS.get((ka, kb)) or FLAT_RESULTS.get((kb, ka)) or FLAT_RESULTS[tuple(sorted((ka, kb)))]


def kname(d):
    if d is None:
        return "None"
    return {"PGS": "PG", "PHS": "PH"}.get(d[0], d[0])


def lift_pair(case):
    """the two real operands of a case (constructor forms picked by case['ls']).
    With case['hist'] one operand reaches its pose through a history: it is built
    translated by -v, optionally *used* there (hashed, compared, queried against the
    other operand, measured, negated, deep-copied), then moved by v; the moved
    receiver or the returned object becomes the operand."""
    r = random.Random(case.get("ls", 0))
    h = case.get("hist")
    if not h:
        return lift(case["a"], r), lift(case["b"], r)
    ds = (case["a"], case["b"])
    other = lift(ds[1 - h["who"]], r)
    mine = lift_via_history(ds[h["who"]], h, r, partner=other)
    return (mine, other) if h["who"] == 0 else (other, mine)


from ..desc import STATS as HIST_STATS      # one dict: histories here, points-with-a-past in desc.lift


def maybe_hist(case, rng, p=0.1, nops=2):
    """add an operand history to a generated case with probability p"""
    if rng.random() >= p:
        return case
    who = rng.randrange(nops)
    d = case["abc"[who]] if "abc"[who] in case else case["a"]
    case["hist"] = make_hist(rng, d, who)
    return case


def make_hist(rng, d, who=0):
    v = tuple(gen.F(rng.randint(-8, 8), rng.choice((1, 2, 4))) for _ in range(3))
    own = _own_vectors(d)
    if own and rng.random() < 0.35:
        v = K.mul(rng.choice(own), rng.choice((1, -1, 2, gen.F(1, 2))))
    if v == (0, 0, 0):
        v = (gen.F(1), gen.F(0), gen.F(0))
    return {"who": who, "v": v, "use": rng.choice(("receiver", "receiver", "returned")), "touch": rng.random() < 0.75,
            "sib": rng.choice((None, None, "neg", "copy")), "neg": rng.choice((None, None, None, "before", "after")),
            "w": tuple(gen.F(rng.randint(-4, 4), 2) for _ in range(3)), "alias": rng.random() < 0.25,
            "split": rng.random() < 0.35, "nt": rng.choice(("float", "float", "int", "int", "Fraction")),
            "assign": d[0] == "S" and rng.random() < 0.3}


def _own_vectors(d):
    k = d[0]
    if k in ("L", "H"):
        return [d[2]]
    if k == "S":
        return [K.sub(d[2], d[1])]
    if k == "PL":
        u, v = gen._plane_basis(d[2])
        return [gen._reduce(d[2]), u, v]
    if k == "PG":
        vs = d[1]
        return [K.sub(vs[1], vs[0]), gen._reduce(K.polygon_normal(vs))]
    if k == "PH":
        f = d[2][0]
        return [K.sub(f[1], f[0]), K.sub(d[1][0], d[1][-1])]
    return []


def touch(o, d, partner=None):
    """use an object the way a program would before moving it: hash, ==, repr, membership,
    intersections, distance / angle against the partner, measures - so that anything the
    library caches lazily gets cached"""
    G = load()
    k = d[0]
    HIST_STATS["touched"] += 1
    for fn in (lambda: hash(o), lambda: o == o, lambda: repr(o)):
        try:
            fn()
        except Exception:
            pass
    if k != "P":
        feats = gen.all_features(d)
        for q in feats[:2] + [K.add(feats[0], (gen.F(1, 4), gen.F(1, 2), gen.F(-1, 4)))]:
            try:
                G.Point(*[float(c) for c in q]) in o
            except Exception:
                pass
        try:
            G.intersection(o, G.Line(G.Point(*[float(c) for c in feats[0]]), G.Vector(1.0, 2.0, -1.0)))
            G.intersection(G.Segment(G.Point(*[float(c) for c in feats[-1]]), G.Vector(0.5, -1.0, 2.0)), o)
        except Exception:
            pass
    if partner is not None:
        for x_, y_ in ((o, partner), (partner, o)):
            try:
                x_ in y_
            except Exception:
                pass
        for fn in (G.intersection, G.distance, G.angle, G.parallel, G.orthogonal):
            for x, y in ((o, partner), (partner, o)):
                try:
                    fn(x, y)
                except Exception:
                    pass
    for name in ("length", "area", "volume"):
        if k in ("S", "PG", "PH") and hasattr(o, name):
            try:
                getattr(o, name)()
            except Exception:
                pass


def lift_via_history(d, h, r, partner=None):
    import copy as _copy
    from ..desc import translate
    G = load()
    v = h["v"]
    d0 = translate(d, K.mul(v, -1))
    if not gen.ok_coords(d0, 64, 64):
        HIST_STATS["fallback"] += 1
        return lift(d, r)
    nt_name = h.get("nt", "float")
    if nt_name == "int" and all(gen.F(c).denominator == 1 for c in gen.coords_of(d0)):
        from ..desc import num as _num
        HIST_STATS["built_with_int_coordinates"] += 1
        o = lift(d0, r, int)
    elif nt_name == "Fraction":
        from fractions import Fraction as _Fr
        HIST_STATS["built_with_Fraction_coordinates"] += 1
        o = lift(d0, r, _Fr)
    else:
        o = lift(d0, r)
    k = d[0]
    negmode = h.get("neg")
    if negmode is True:
        negmode = "before"
    if negmode == "before" and k in ("PG", "PL"):
        # the same set obtained by negating once / twice: a derived object with its own internal wiring
        HIST_STATS["via_negation"] += 1
        o = -o if (k == "PL" or h.get("w", (0,))[0] % 2 == 0) else -(-o)
    HIST_STATS["built"] += 1
    if h.get("touch"):
        touch(o, d0, partner)
    sib = None
    if h.get("sib") == "neg" and k == "PG":
        # (not for Plane: -plane shares its point with the plane by design, like Plane(p, n) shares p with its caller)
        sib = -o
    elif h.get("sib") == "copy":
        sib = _copy.deepcopy(o)
    if h.get("assign") and k == "S":
        # a Segment reaches its place by item assignment of both end points (public API), after having been used elsewhere
        HIST_STATS["segments_placed_by_item_assignment"] += 1
        o[0] = G.Point(*[float(c) for c in d[1]])
        o[1] = G.Point(*[float(c) for c in d[2]])
        h["use"] = "receiver"
        return o
    if h.get("split"):
        # the object reaches its place in two moves (and is used in between): whatever it caches after the first move
        # must not survive the second
        v1 = tuple(gen.F(int(c * 2) // 2) for c in v) if any(int(c * 2) // 2 for c in v) else K.mul(v, gen.F(1, 2))
        v2 = K.sub(v, v1)
        HIST_STATS["moved_in_two_steps"] += 1
        o.move(G.Vector(*[float(c) for c in v1]))
        if h.get("touch"):
            touch(o, translate(d0, v1), partner)
        ret = o.move(G.Vector(*[float(c) for c in v2]))
    else:
        ret = o.move(G.Vector(*[float(c) for c in v]))
    derived = None
    if k == "P" and h.get("sib"):
        # objects built FROM the point (in its final place) go their own way afterwards: the point must not follow them
        derived = []
        for src in (o, ret):
            derived += [G.Line(src, G.Vector(1.0, 2.0, 2.0)), G.Segment(src, G.Vector(0.5, -1.0, 1.0)), G.HalfLine(src, G.Vector(2.0, 0.0, -1.0))]
    if derived:
        for dobj in derived:
            try:
                dobj.move(G.Vector(*[float(c) for c in h.get("w", (1, 0, 0))]))
            except Exception:
                pass
        HIST_STATS["siblings"] += 1
    if negmode == "after" and k in ("PG", "PL"):
        # the operand is the negation of an object that was moved and used in its final place
        HIST_STATS["via_negation"] += 1
        if h.get("touch"):
            touch(o, d, partner)
            touch(ret, d, partner)
        o = -o
        ret = -ret
    if sib is not None and hasattr(sib, "move"):
        # a sibling derived before the move goes its own way afterwards: the operand must not follow it
        HIST_STATS["siblings"] += 1
        try:
            sib.move(G.Vector(*[float(c) for c in h.get("w", (1, 0, 0))]))
        except Exception:
            pass
    judged, other = (o, ret) if h["use"] == "receiver" else (ret, o)
    if h.get("alias") and h.get("reread_ok"):
        # receiver and returned object of one move: the one that is NOT judged moves on (used first, so that whatever it
        # caches is cached).  Whether the judged one follows is the library's business (a Plane and the plane returned
        # by its move share their point); what must hold is that the judged object still answers every query according
        # to its own public attributes, which are read back here and become the descriptor the oracle works from.
        w = h.get("w", (1, 0, 0))
        if w == (0, 0, 0):
            w = (gen.F(1), gen.F(0), gen.F(-1, 2))
        try:
            if h.get("touch"):
                touch(judged, d, partner)
            other.move(G.Vector(*[float(c) for c in w]))
            if h.get("touch") and h.get("sib") is None:
                touch(other, translate(d, w), None)
        except Exception:
            pass
        HIST_STATS["alias_moves"] += 1
        nd = reread(judged, d)
        if nd is None:
            HIST_STATS["alias_reread_failed"] += 1
        h["_reread"] = nd
    return judged


def reread(o, d):
    """exact descriptor of what the object o (built from descriptor d and translated since) now says it is, read from
    its public primary attributes; None when it is not a translate of d (the invariant hooks deal with deformations)"""
    from ..desc import translate, exact_of_float
    k = d[0]
    try:
        fd = lower(o)
        if fd is None or fd[0] != k:
            return None
        if k == "P":
            anchor_now, anchor_was = fd[1], d[1]
        elif k in ("L", "H", "S", "PL"):
            anchor_now, anchor_was = fd[1], d[1]
        elif k == "PG":
            anchor_now, anchor_was = min(fd[1]), min(d[1])
        else:
            anchor_now, anchor_was = min(fd[1]), min(d[1])
        ex = exact_of_float(("P", tuple(anchor_now)))
        if ex is None:
            return None
        s = K.sub(ex[1], anchor_was)
        nd = translate(d, s)
        if k in ("L", "PL"):
            # any point of the line / plane may serve as support: only the set matters
            same, _why = same_set(fd, nd)
            if not same:
                # the support moved along the object itself or the object is elsewhere: take its own support point
                nd = (k, ex[1], d[2])
                same, _why = same_set(fd, nd)
        else:
            same, _why = same_set(fd, nd)
        return nd if same else None
    except Exception:
        return None


def effective(case):
    """(a, b, prelifted): the descriptors the oracle must work from and, for alias histories, the operands already
    built (their descriptors are only known after the history has run).  prelifted is None otherwise."""
    h = case.get("hist")
    a, b = case["a"], case["b"]
    if not h or not h.get("alias"):
        return a, b, None
    h["reread_ok"] = True
    try:
        x, y = lift_pair(case)
        nd = h.pop("_reread", "absent")
    finally:
        h.pop("reread_ok", None)
        h.pop("_reread", None)
    if nd == "absent":
        return a, b, (x, y)          # history fell back to a plain lift
    if nd is None:
        return None, None, (x, y)
    if h["who"] == 0:
        a = nd
    else:
        b = nd
    case["_alias_done"] = True
    K.reset()
    return a, b, (x, y)


def hist_cell(case):
    h = case.get("hist")
    if not h:
        return []
    out = ["pose:history/%s/%s" % ("used-then-moved" if h.get("touch") else "moved", h["use"])]
    who = case.get("abc"[h.get("who", 0)]) if "abc"[h.get("who", 0)] in case else None
    if h.get("assign") and who is not None and who[0] == "S":
        out = ["pose:history/segment-placed-by-item-assignment"]
    if h.get("alias") and case.get("_alias_done"):
        out.append("pose:history/other-of-(receiver,returned)-moved-on/" + h["use"])
    return out


def run_inter(fn, x, y, exp, tag, mu, keybase, descs=None):
    """call fn(x, y) at the boundary, compare with the oracle's `exp`.
    Records into the Multi `mu`.  Returns the library result (or None)."""
    res, exc, impure = M.call(fn, x, y)
    if exc is not None:
        mu.fail("%s:%s:raises-%s" % (keybase, tag, M.classify_exc(exc)),
                "%s raised %s: %s (expected %s)" % (tag, type(exc).__name__, exc, show_short(exp)))
        return None
    if impure:
        mu.fail("%s:%s:operand-modified" % (keybase, tag), "%s modified an operand: %s" % (tag, impure))
    got = lower(res)
    same, why = same_set(got, exp)
    if not same:
        mu.fail("%s:%s:expected-%s-got-%s" % (keybase, tag, kname(exp), kname(got)),
                "%s: %s; expected %s got %s" % (tag, why, show_short(exp), show_short(got)))
    else:
        bad = M.invariants(res) if res is not None else []
        if bad:
            mu.fail("%s:%s:malformed-result" % (keybase, tag), "%s returned a malformed %s: %s" % (tag, kname(got), bad[0]))
    if descs is not None and mu.viol is None and res is not None and hasattr(res, "move"):
        _RESULT_TICK[0] += 1
        if _RESULT_TICK[0] % 6 == 0:
            _result_moved(fn, x, y, res, descs, tag, mu, keybase)
    return res


_RESULT_TICK = [0]
_PART_ATTRS = ("convex_polygons", "points", "point_set", "segment_set", "pyramid_set")
_PART_SINGLE = ("start_point", "end_point", "point", "p", "line", "plane", "center_point", "sv", "dv", "n", "vector")


def _is_operand_or_public_part(res, o):
    if res is o:
        return True
    for name in _PART_SINGLE:
        if getattr(o, name, None) is res:
            return True
    for name in _PART_ATTRS:
        coll = getattr(o, name, None)
        if coll is not None:
            try:
                if any(item is res for item in coll):
                    return True
            except TypeError:
                pass
    return False


def _result_moved(fn, x, y, res, descs, tag, mu, keybase):
    """the caller moves the object a query returned (its own, unless it shares any object with an operand) and asks again.  What the operands then are is read back from their own public
    attributes; the second answer must be the exact intersection of THAT."""
    G = load()
    if _is_operand_or_public_part(res, x) or _is_operand_or_public_part(res, y) or M.shares_state(res, [x, y]):
        # results may be (parts of) the operands - the pinned library hands out an operand itself, the face a plane lies
        # in, or the very Point object that is a vertex of a polyhedron; moving those is the caller changing the operand
        return
    try:
        res.move(G.Vector(1.25, -0.5, 2.0))
    except Exception:
        return
    HIST_STATS["results_moved_by_the_caller"] += 1
    mu.cell("history:result-moved-by-the-caller-then-asked-again")
    na, nb = reread(x, descs[0]), reread(y, descs[1])
    if na is None or nb is None:
        for o, nm in ((x, "first"), (y, "second")):
            bad = M.invariants(o)
            if bad:
                mu.fail("%s:%s:operand-damaged-by-moving-the-result" % (keybase, tag),
                        "after the caller moved the object returned by %s the %s operand is no longer consistent: %s" % (tag, nm, bad[0]))
        return
    K.reset()
    try:
        exp2 = K.inter(na, nb)
    except Exception:
        return
    if not core.admitted():
        return
    res2, exc, _ = M.call(fn, x, y)
    if exc is not None:
        mu.fail("%s:%s:raises-%s/after-the-caller-moved-an-earlier-result" % (keybase, tag, M.classify_exc(exc)),
                "%s raised %s: %s when asked again after the caller had moved the first result" % (tag, type(exc).__name__, exc))
        return
    same, why = same_set(lower(res2), exp2)
    if not same:
        mu.fail("%s:%s:answer-changes-after-the-caller-moved-an-earlier-result" % (keybase, tag),
                "%s asked again after the caller moved the first result: %s; the operands (read back) give %s, got %s" % (
                    tag, why, show_short(exp2), show_short(lower(res2))))


def show_short(d, limit=300):
    s = show(d)
    return s if len(s) <= limit else s[:limit] + "..."


def describe_pair(case):
    return {"a": show_short(case["a"], 200), "b": show_short(case["b"], 200), "label": case.get("label")}


def classify_1d_1d(a, b, exp):
    """scenario class of two 1-D descriptors (exact predicates, margins not recorded)"""
    saved = (K.ST.margin, K.ST.decisions)
    try:
        p1, d1, lo1, hi1 = K.one_d(a)
        p2, d2, lo2, hi2 = K.one_d(b)
        c = K.cross(d1, d2)
        w = K.sub(p2, p1)
        if c == (0, 0, 0):
            if K.cross(w, d1) != (0, 0, 0):
                return "parallel-distinct"
            sense = "same-sense" if K.dot(d1, d2) > 0 else "opposite-sense"
            if exp is None:
                rel = "disjoint"
            elif exp[0] == "P":
                rel = "touching"
            else:
                ea = _same_1d(exp, a)
                eb = _same_1d(exp, b)
                rel = "equal" if (ea and eb) else ("nested" if (ea or eb) else "overlapping")
            return "collinear/%s/%s" % (rel, sense)
        if K.dot(w, c) != 0:
            return "skew"
        if exp is None:
            return "coplanar-crossing/miss"
        cc = K.dot(c, c)
        t = K.dot(K.cross(w, d2), c) / cc
        s = K.dot(K.cross(w, d1), c) / cc
        ends = sum(1 for (x, lo, hi) in ((t, lo1, hi1), (s, lo2, hi2)) if x == lo or x == hi)
        return "coplanar-crossing/hit-%s" % ("interior", "at-one-end", "at-both-ends")[ends]
    finally:
        K.ST.margin, K.ST.decisions = saved


def _same_1d(x, y):
    if x[0] != y[0]:
        return False
    if x[0] == "S":
        return {x[1], x[2]} == {y[1], y[2]}
    if x[0] == "H":
        return x[1] == y[1] and K.cross(x[2], y[2]) == (0, 0, 0) and K.dot(x[2], y[2]) > 0
    return True


def classify_flat(a, b, exp):
    ka, kb = a[0], b[0]
    if ka in ONE_D and kb in ONE_D:
        return classify_1d_1d(a, b, exp)
    if ka == "P" or kb == "P":
        return "point-on" if exp is not None else "point-off"
    saved = (K.ST.margin, K.ST.decisions)
    try:
        if ka == "PL" and kb == "PL":
            if exp is None:
                return "parallel-planes"
            return "coincident-planes" if exp[0] == "PL" else "crossing-planes"
        pl, o = (a, b) if ka == "PL" else (b, a)
        p, d, lo, hi = K.one_d(o)
        if K.dot(d, pl[2]) == 0:
            return "in-plane" if exp is not None else "parallel-off-plane"
        if exp is None:
            return "crossing-carrier/miss"
        t = K.dot(pl[2], K.sub(pl[1], p)) / K.dot(pl[2], d)
        return "crossing/hit-at-end" if (t == lo or t == hi) else "crossing/hit-interior"
    finally:
        K.ST.margin, K.ST.decisions = saved


# --------------------------------------------------------------------------
# bodies: exact location / position classes (no margins recorded)

def _quiet(fn):
    def w(*a, **k):
        saved = (K.ST.margin, K.ST.decisions)
        try:
            return fn(*a, **k)
        finally:
            K.ST.margin, K.ST.decisions = saved
    return w


def body_edges(body):
    if body[0] == "PG":
        vs = body[1]
        return [(vs[i], vs[(i + 1) % len(vs)]) for i in range(len(vs))]
    es = {}
    for f in body[2]:
        for i in range(len(f)):
            e = frozenset((f[i], f[(i + 1) % len(f)]))
            es[e] = tuple(e)
    return list(es.values())


def body_faces(body):
    return [body[1]] if body[0] == "PG" else list(body[2])


def _on_seg(x, p, q):
    d = K.sub(q, p)
    v = K.sub(x, p)
    if K.cross(v, d) != (0, 0, 0):
        return False
    t = K.dot(v, d)
    return 0 <= t <= K.dot(d, d)


@_quiet
def locate_point(body, x):
    """vertex / edge / face / interior / outside (PH);  vertex / edge / interior /
    in-plane-outside / off-plane (PG)"""
    if x in body[1]:
        return "vertex"
    for p, q in body_edges(body):
        if _on_seg(x, p, q):
            return "edge"
    if body[0] == "PG":
        n = K.polygon_normal(body[1])
        if K.dot(n, K.sub(x, body[1][0])) != 0:
            return "off-plane"
        return "interior" if K.contains_point(body, x) else "in-plane-outside"
    if not K.contains_point(body, x):
        return "outside"
    for a, b, kind_ in K.constraints(body):
        if K.dot(a, x) == b:
            return "face"
    return "interior"


@_quiet
def classify_f_body(f, body, exp):
    """position classes of a flat object f against a convex body"""
    kf = f[0]
    labels = []
    if kf == "P":
        return ["point-" + locate_point(body, f[1])]
    verts = body[1]
    if kf in ONE_D:
        p, d, lo, hi = K.one_d(f)
        through_v = any(K.cross(K.sub(v, p), d) == (0, 0, 0) for v in verts)
        along_e = any(K.cross(K.sub(a, p), d) == (0, 0, 0) and K.cross(K.sub(b, p), d) == (0, 0, 0) for a, b in body_edges(body))
        in_face = False
        for fc in body_faces(body):
            n = K.polygon_normal(fc)
            if K.dot(n, d) == 0 and K.dot(n, K.sub(p, fc[0])) == 0:
                in_face = True
        if along_e:
            labels.append("carrier-along-edge")
        elif in_face:
            labels.append("carrier-in-face-plane")
        elif through_v:
            labels.append("carrier-through-vertex")
        else:
            labels.append("carrier-generic")
        if kf in ("H", "S"):
            labels.append("start-" + locate_point(body, p))
        if kf == "S":
            labels.append("end-" + locate_point(body, K.add(p, d)))
        if exp is not None and exp[0] == "P":
            labels.append("touching-or-single-hit")
        return labels
    # plane
    n, p0 = f[2], f[1]
    sides = [K.dot(n, K.sub(v, p0)) for v in verts]
    on = sum(1 for s in sides if s == 0)
    pos = any(s > 0 for s in sides)
    neg = any(s < 0 for s in sides)
    if body[0] == "PG" and on == len(verts):
        return ["plane-coplanar"]
    if pos and neg:
        labels.append("plane-cutting" + ("-through-vertex" if on else ""))
    elif on == 0:
        labels.append("plane-missing")
    elif on == 1:
        labels.append("plane-tangent-vertex")
    elif on == 2:
        labels.append("plane-tangent-edge")
    else:
        labels.append("plane-tangent-face")
    return labels


# --------------------------------------------------------------------------
# inner-call shadow check (DESIGN 2.5): judge the library's own recursive
# intersection() sub-calls whose operands are exactly liftable

class InnerShadow:
    """Installed as monitor.ST.inner_hook.  `domain(ka, kb)` says which sub-calls
    belong to the running property; at most `cap` of them are judged per case,
    each sampled with probability `p`."""

    def __init__(self, domain, cap=6, p=0.35, seed=1):
        self.domain = domain
        self.cap = cap
        self.p = p
        self.rng = random.Random(seed)
        self.stats = {"seen": 0, "in_domain": 0, "not_liftable": 0, "judged": 0, "not_admitted": 0, "mismatch": 0, "cells": {}}
        self.pending = []
        self.n_case = 0

    def install(self):
        M.ST.inner_hook = self

    def new_case(self):
        self.pending = []
        self.n_case = 0

    def __call__(self, a, b, res, exc):
        st = self.stats
        st["seen"] += 1
        if exc is not None:
            return
        ka, kb = M.kind(a), M.kind(b)
        if not self.domain(ka, kb):
            return
        st["in_domain"] += 1
        if self.n_case >= self.cap or self.rng.random() > self.p:
            return
        from ..desc import exact_of_float
        da, db = exact_of_float(lower(a)), exact_of_float(lower(b))
        if da is None or db is None:
            st["not_liftable"] += 1
            return
        self.n_case += 1
        saved = (K.ST.tol, K.ST.margin, K.ST.decisions)
        try:
            K.reset()
            try:
                exp = K.inter(da, db)
            except Exception:
                st["not_liftable"] += 1
                return
            if K.margin() < core.MARGIN:
                st["not_admitted"] += 1
                return
        finally:
            K.ST.tol, K.ST.margin, K.ST.decisions = saved
        st["judged"] += 1
        cell = "%s,%s->%s" % (ka, kb, kname(exp))
        st["cells"][cell] = st["cells"].get(cell, 0) + 1
        same, why = same_set(lower(res), exp)
        if not same:
            st["mismatch"] += 1
            self.pending.append(("%s,%s:inner-call:expected-%s-got-%s" % (ka, kb, kname(exp), M.kind(res)),
                                 "library-internal call intersection(%s, %s) returned %s, exact %s (%s); operands %s / %s" % (
                                     ka, kb, show_short(lower(res), 120), show_short(exp, 120), why, show_short(da, 160), show_short(db, 160))))

    def finish(self, mu):
        """fold the mismatches of this case into its verdict"""
        for key, what in self.pending:
            mu.fail(key, what)
        n = self.n_case
        self.pending = []
        return n

    def report(self):
        return {"inner_shadow": {k: v for k, v in self.stats.items() if k != "cells"}, "inner_shadow_cells": dict(self.stats["cells"])}


# --------------------------------------------------------------------------
# prelude cases (inserted by the runner into every workload): legitimate API use of the objects
# the library hands out through its factory functions (zero / unit vectors, origin, axes, planes),
# followed by a sentinel check that those factories still deliver what their names say.
# Process-global state polluted here also shows in every later case of the same worker.

def judge_prelude(case, verdict=True):
    G = load()
    mu = core.Multi()
    mu.cell("prelude")
    V = G.Vector
    try:
        l = G.Line(V.zero(), G.x_unit_vector())
        l.move(V(0, 2, 1))
        l2 = G.Line(G.z_unit_vector(), V.x_unit_vector())
        l2.move(V(0, 0, 1))
        v = G.y_unit_vector()
        v[1] = 5.0
        w = V.zero()
        w[0] = 1
        o = G.origin()
        o.move(V(1, 2, 3))
        ax = G.x_axis()
        ax.move(V(0, 1, 0))
        pl = G.xy_plane()
        pl.move(V(0, 0, 2))
        p0 = G.Point(1, 2, 3)
        q0 = G.Point(2, 3, 5)
        ln = G.Line(p0, q0)
        ln.move(V(1, 0, 0))
        u = V(3, 4, 0)
        u.normalized(), u.length(), u.unit()
        u[2] = 12
        hs = G.HalfLine(G.origin(), G.z_unit_vector())
        hs.move(V(1, 1, 1))
    except Exception as e:
        mu.fail("prelude:raises-" + type(e).__name__, "ordinary use of the library's factory objects raised %r" % e)
        return mu.result() if verdict else core.ok(["prelude"])
    bad = []

    def comps(x):
        return [x[0], x[1], x[2]]
    for name, want in (("zero", [0, 0, 0]), ("x_unit_vector", [1, 0, 0]), ("y_unit_vector", [0, 1, 0]), ("z_unit_vector", [0, 0, 1])):
        if comps(getattr(V, name)()) != want:
            bad.append("Vector.%s() = %r" % (name, comps(getattr(V, name)())))
        if name != "zero" and comps(getattr(G, name)()) != want:
            bad.append("%s() = %r" % (name, comps(getattr(G, name)())))
    oo = G.origin()
    if (oo.x, oo.y, oo.z) != (0, 0, 0):
        bad.append("origin() = %r" % oo)
    for name, dv in (("x_axis", (1, 0, 0)), ("y_axis", (0, 1, 0)), ("z_axis", (0, 0, 1))):
        a_ = getattr(G, name)()
        if comps(a_.sv) != [0, 0, 0] or tuple(comps(a_.dv)) != dv:
            bad.append("%s() = %r" % (name, a_))
    for name, n in (("xy_plane", (0, 0, 1)), ("yz_plane", (1, 0, 0)), ("xz_plane", (0, 1, 0))):
        p_ = getattr(G, name)()
        if (p_.p.x, p_.p.y, p_.p.z) != (0, 0, 0) or tuple(comps(p_.n)) != n:
            bad.append("%s() = %r" % (name, p_))
    if (p0.x, p0.y, p0.z) != (1, 2, 3) or comps(p0.pv()) != [1, 2, 3]:
        bad.append("a Point changed after a Line built from it was moved: %r / pv %r" % (p0, comps(p0.pv())))
    try:
        fresh = G.Line(p0, q0)
        if not (p0 in fresh) or not (q0 in fresh):
            bad.append("Line(p, q) does not contain p / q after an earlier Line built from p was moved")
    except Exception as e:
        bad.append("Line(p, q) raised %r" % e)
    nz = u.normalized()
    if abs(float(nz[2]) - 12.0 / 13.0) > 1e-12:
        bad.append("normalized() after coordinate assignment = %r" % comps(nz))
    try:
        G.Line(G.Point(1, 1, 1), G.Point(1, 1, 1))
        bad.append("Line(P, P) accepted")
    except Exception:
        pass
    try:
        cfg = (G.get_eps(), G.get_sig_figures())
        if cfg != (1e-10, 10):
            bad.append("configuration (eps, significant figures) = %r although nobody set it" % (cfg,))
    except Exception as e:
        bad.append("get_eps raised %r" % e)
    if bad and verdict:
        mu.fail("global-state:" + bad[0].split("(")[0].split("=")[0].strip().replace(" ", "-")[:40],
                "after ordinary use (moving / editing objects obtained from the library's factory functions): " + "; ".join(bad[:3]))
    return mu.result()
