"""C01 - intersection of two flat primitives is exactly their common point set."""
from .. import kernel as K
from .. import monitor as M
from .. import core, gen
from ..lib import load
from . import common as C

ID = "C01"
BUDGET = {"quick": 48000, "thorough": 1600000}
SOFT = {"quick": 60, "thorough": 540}
RULE = ("ordered kind pairs of {Point,Line,HalfLine,Segment,Plane} cycled; operands from scenario constructors "
        "(collinear interval relations, parallel, coplanar crossing inside/at-end/outside, through feature points of the "
        "partner, parallel/coincident planes, line in / parallel to plane) 70% and unconstrained lattice 30%; a case is "
        "non-trivial when it passed margin (>=1e-3) and hash-boundary admission and was compared with the exact oracle; "
        "distinct = distinct (operands, constructor-form seed) content hash")
ASSUMPTIONS = ["function form intersection(a,b) and method form a.intersection(b) are observed; both orders arise as separate ordered pairs"]
PAIRS = [(a, b) for a in gen.FLAT for b in gen.FLAT]
REQUIRED_FUNCS = ("inter_line_line", "inter_line_plane", "inter_plane_plane", "inter_segment_segment",
                  "inter_segment_halfline", "inter_halfline_halfline", "inter_line_segment", "inter_line_halfline",
                  "inter_plane_segment", "inter_plane_halfline", "Segment.__contains__", "HalfLine.__contains__",
                  "Vector.parallel")


def required_cells(tier):
    req = {}
    m = 20 if tier == "quick" else 400
    for a, b in PAIRS:
        req["pair:%s,%s" % (a, b)] = m
        for r in C.results_for(a, b):
            req["pair:%s,%s->%s" % (a, b, r)] = 3 if tier == "quick" else 40
    for rel in ("disjoint", "touching", "overlapping", "nested", "equal"):
        for s in ("same-sense", "opposite-sense"):
            req["scen:collinear/%s/%s" % (rel, s)] = 10
    for s in ("parallel-distinct", "skew", "coplanar-crossing/miss", "coplanar-crossing/hit-interior",
              "coplanar-crossing/hit-at-one-end", "coplanar-crossing/hit-at-both-ends", "point-on", "point-off",
              "parallel-planes", "coincident-planes", "crossing-planes", "in-plane", "parallel-off-plane",
              "crossing-carrier/miss", "crossing/hit-at-end", "crossing/hit-interior"):
        req["scen:" + s] = 10
    req["carrier:with-judged-inner-calls"] = 100 if tier == "quick" else 2000
    req["gen:follow-up/same-carrier-and-start"] = 300 if tier == "quick" else 6000
    for hc in ("used-then-moved/receiver", "used-then-moved/returned", "moved/receiver",
               "other-of-(receiver,returned)-moved-on/receiver", "other-of-(receiver,returned)-moved-on/returned"):
        req["pose:history/" + hc] = 30
    return req


CARRIERS = [("PG", "PG"), ("S", "PH"), ("L", "PG"), ("H", "PH"), ("PL", "PH"), ("S", "PG"), ("PG", "PH"), ("L", "PH")]
_inner = C.InnerShadow(lambda ka, kb: ka in gen.FLAT and kb in gen.FLAT, cap=8, p=0.5)


def setup():
    _inner.install()


def worker_report():
    _h = {"operand_histories": dict(C.HIST_STATS)}
    d = _inner.report()
    d.update(_h)
    return d


def cases(rng, budget, widx, nworkers, tier):
    i = widx
    while True:
        ka, kb = PAIRS[i % len(PAIRS)]
        i += 1
        if i % 12 == 0:
            # carrier case: a body-level intersection run only to harvest the library's own
            # recursive flat-flat sub-calls, which are judged by the inner-call shadow check
            ca, cb = CARRIERS[(i // 12) % len(CARRIERS)]
            (a, b), label = gen.gen_pair(rng, ca, cb, small=True)
            yield {"a": a, "b": b, "label": "carrier", "ls": rng.getrandbits(30), "carrier": True}
            continue
        (a, b), label = gen.gen_pair(rng, ka, kb)
        yield C.maybe_hist({"a": a, "b": b, "label": label, "ls": rng.getrandbits(30)}, rng)
        if b[0] in ("L", "H", "S") and rng.random() < 0.15:
            # follow-up in the same process: the same first operand against another object on b's carrier that
            # shares b's support / start point but has another extent or direction scale
            p0, d0, lo, hi = K.one_d(b)
            k2 = rng.choice(("L", "H", "S"))
            sc = rng.choice((2, gen.F(1, 2), 3, -1, -2))
            if k2 == "S":
                b2 = ("S", p0, K.add(p0, K.mul(d0, sc)))
            else:
                b2 = (k2, p0, K.mul(d0, sc))
            if gen.ok_coords(b2, 64, 40):
                yield {"a": a, "b": b2, "label": "follow-up/same-carrier-and-start", "ls": rng.getrandbits(30)}


def judge(case):
    G = load()
    a, b = case["a"], case["b"]
    _inner.new_case()
    if case.get("carrier"):
        mu = core.Multi()
        x, y = C.lift_pair(case)
        M.call(G.intersection, x, y)
        n = _inner.finish(mu)
        mu.cell("carrier:%s,%s" % (a[0], b[0]))
        if n:
            mu.cell("carrier:with-judged-inner-calls")
        return mu.result(nontrivial=n > 0, outcome="%d inner flat-flat calls judged" % n)
    a, b, pre = C.effective(case)
    if a is None:
        return core.not_admitted("alias-reread")
    exp = K.inter(a, b)
    if not core.admitted():
        return core.not_admitted("margin")
    ka, kb = a[0], b[0]
    scen = C.classify_flat(a, b, exp)
    mu = core.Multi()
    mu.cell("pair:%s,%s" % (ka, kb), "pair:%s,%s->%s" % (ka, kb, C.kname(exp)), "scen:" + scen, "gen:" + case["label"])
    mu.cell(*C.hist_cell(case))
    x, y = pre or C.lift_pair(case)
    kb_ = "%s,%s" % (ka, kb)
    C.run_inter(G.intersection, x, y, exp, "intersection(a,b)", mu, kb_, descs=(a, b))
    if ka != "P":
        C.run_inter(lambda p, q: p.intersection(q), x, y, exp, "a.intersection(b)", mu, kb_)
    _inner.finish(mu)
    return mu.result(outcome=C.show_short(exp, 120))


describe = C.describe_pair
