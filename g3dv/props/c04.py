"""C04 - intersection is total, symmetric and typed over all 49 operand type pairs."""
import os
import re

from .. import kernel as K
from .. import monitor as M
from .. import core, gen
from ..desc import lift, lower, same_set
from ..lib import load, REPO
from . import common as C

ID = "C04"
BUDGET = {"quick": 20000, "thorough": 500000}
SOFT = {"quick": 70, "thorough": 560}
RULE = ("all 49 ordered kind pairs cycled (exhaustive over pairs), operands from the C01-C03 scenario generators plus None "
        "operands; per case the four call forms intersection(a,b), intersection(b,a), a.intersection(b), b.intersection(a) are "
        "compared pairwise as denoted sets, exceptions are classified, result types are checked against the table parsed at run "
        "time from docs/source/example_operation.rst; non-trivial = admitted by the oracle margins; distinct by content hash")
ASSUMPTIONS = ["the oracle result is a recorded third opinion here; agreement of all forms on a wrong set is C01-C03's business",
               "properties.jsonl spells the documentation path Geometry3D/docs/...; the file lives at docs/source/example_operation.rst"]
PAIRS = [(a, b) for a in gen.KINDS for b in gen.KINDS]
_NAME2K = {v: k for k, v in gen.NAMES.items()}
_table = None
_diag = {"doc_rows": 0, "oracle_disagreements_recorded": 0, "none_operand_calls": 0}


def doc_table():
    global _table
    if _table is not None:
        return _table
    path = os.path.join(REPO, "docs", "source", "example_operation.rst")
    rows = {}
    last = None
    try:
        with open(path) as f:
            for line in f:
                m = re.match(r"^\|\s*(\w*)\s*\|\s*(\w*)\s*\|\s*(.*?)\s*\|\s*$", line)
                if not m:
                    continue
                a, b, out = m.groups()
                kinds = [x.strip() for x in out.split(",") if x.strip()]
                if a in _NAME2K and b in _NAME2K:
                    last = frozenset((_NAME2K[a], _NAME2K[b]))
                    rows[last] = set()
                elif a == "" and b == "" and last is not None:
                    pass
                else:
                    continue
                for k in kinds:
                    if k == "None":
                        rows[last].add("None")
                    elif k in _NAME2K:
                        rows[last].add(_NAME2K[k])
    except OSError:
        rows = {}
    _table = rows
    _diag["doc_rows"] = len(rows)
    return rows


def required_cells(tier):
    q = tier == "quick"
    req = {}
    for a, b in PAIRS:
        req["pair:%s,%s" % (a, b)] = 50 if q else 1000
    req["none-operand"] = 50
    req["history:result-moved-then-asked-again"] = 200
    for hc in ("used-then-moved/receiver", "used-then-moved/returned", "moved/receiver"):
        req["pose:history/" + hc] = 30
    return req


def aggregate_check(extras, cells, tier):
    rows = max((e or {}).get("doc_rows", 0) for e in extras) if extras else 0
    return [] if rows == 28 else ["documented result table has %d rows, expected 28" % rows]


def cases(rng, budget, widx, nworkers, tier):
    sm = lambda: tier == "quick" or rng.random() < 0.5      # thorough: half of the bodies from the full families (prisms, bipyramids, general hulls)
    i = widx
    while True:
        ka, kb = PAIRS[i % len(PAIRS)]
        i += 1
        if i % 25 == 0:
            yield {"none": True, "a": gen.rand_obj(rng, ka, small=sm()), "label": "none-operand", "ls": rng.getrandbits(30)}
            continue
        (a, b), label = gen.gen_pair(rng, ka, kb, small=sm())
        yield C.maybe_hist({"a": a, "b": b, "label": label, "ls": rng.getrandbits(30)}, rng, p=0.2)


def _judge_none(case):
    import random
    G = load()
    x = lift(case["a"], random.Random(case["ls"]))
    mu = core.Multi()
    mu.cell("none-operand")
    ka = case["a"][0]
    forms = [("intersection(None,x)", lambda: G.intersection(None, x)), ("intersection(x,None)", lambda: G.intersection(x, None)),
             ("intersection(None,None)", lambda: G.intersection(None, None))]
    if ka != "P":
        forms.append(("x.intersection(None)", lambda: x.intersection(None)))
    for tag, fn in forms:
        _diag["none_operand_calls"] += 1
        res, exc, _ = M.call(fn, pure=False)
        if exc is not None:
            mu.fail("None-operand:%s:raises-%s" % (ka, M.classify_exc(exc)), "%s raised %s: %s" % (tag, type(exc).__name__, exc))
        elif res is not None:
            mu.fail("None-operand:%s:returns-%s" % (ka, M.kind(res)), "%s returned %r, not None" % (tag, res))
    return mu.result()


def judge(case):
    if case.get("none"):
        return _judge_none(case)
    G = load()
    a, b = case["a"], case["b"]
    exp = K.inter(a, b)
    if not core.admitted():
        return core.not_admitted("margin")
    ka, kb = a[0], b[0]
    mu = core.Multi()
    mu.cell("pair:%s,%s" % (ka, kb), "gen:" + case["label"])
    mu.cell(*C.hist_cell(case))
    x, y = C.lift_pair(case)
    forms = [("intersection(a,b)", G.intersection, x, y), ("intersection(b,a)", G.intersection, y, x)]
    if ka != "P":
        forms.append(("a.intersection(b)", lambda p, q: p.intersection(q), x, y))
    if kb != "P":
        forms.append(("b.intersection(a)", lambda p, q: p.intersection(q), y, x))
    kb_ = "%s,%s" % (ka, kb)
    table = doc_table()
    allowed = table.get(frozenset((ka, kb)))
    outs = []
    for tag, fn, p, q in forms:
        res, exc, impure = M.call(fn, p, q)
        if exc is not None:
            mu.fail("%s:%s:raises-%s" % (kb_, tag, M.classify_exc(exc)),
                    "%s raised %s: %s" % (tag, type(exc).__name__, exc))
            continue
        got = lower(res)
        outs.append((tag, got))
        rk = C.kname(got)
        mu.cell("pair:%s,%s->%s" % (ka, kb, rk))
        if allowed is not None and rk not in allowed:
            mu.fail("%s:%s:undocumented-result-type-%s" % (kb_, tag, rk),
                    "%s returned %s; documented for this pair: %s" % (tag, rk, sorted(allowed)))
    for i in range(1, len(outs)):
        same, why = same_set(outs[i][1], outs[0][1])
        if not same:
            mu.fail("%s:asymmetric:%s-vs-%s" % (kb_, outs[0][0], outs[i][0]),
                    "%s and %s denote different sets (%s): %s vs %s" % (outs[0][0], outs[i][0], why,
                                                                      C.show_short(outs[0][1], 160), C.show_short(outs[i][1], 160)))
            break
    if outs and mu.viol is None and case.get("ls", 0) % 4 == 0:
        # a result that is a fresh object (not an operand, not part of one) is moved by the caller;
        # asking the same question again must give the same answer in every form
        r0, e0, _ = M.call(G.intersection, x, y)
        if e0 is None and r0 is not None and hasattr(r0, "move") and not M.shares_state(r0, (x, y)):
            # (results that share an object with an operand - the operand itself, a face of it - are left alone)
            want = lower(r0)
            try:
                r0.move(G.Vector(0.75, -1.25, 2.5))
            except Exception:
                pass
            if True:
                mu.cell("history:result-moved-then-asked-again")
                for tag, fn, p_, q_ in forms:
                    r1, e1, _ = M.call(fn, p_, q_)
                    ok, why = same_set(lower(r1), want) if e1 is None else (False, repr(e1))
                    if not ok:
                        mu.fail("%s:answer-changes-after-caller-moved-an-earlier-result" % kb_,
                                "%s after the caller moved the object returned by an earlier identical call: %s" % (tag, why))
                        break
    if outs and mu.viol is None:
        same, _ = same_set(outs[0][1], exp)
        if not same:
            _diag["oracle_disagreements_recorded"] += 1
    return mu.result(outcome=C.show_short(exp, 100))


def setup():
    doc_table()


def worker_report():
    _h = {"operand_histories": dict(C.HIST_STATS)}
    d = dict(_diag)
    d.update(_h)
    return d


describe = lambda case: C.describe_pair(case) if "b" in case else {"x": C.show_short(case["a"], 200), "label": "none-operand"}
