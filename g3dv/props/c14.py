"""C14 - shape builders produce the specified inscribed shapes for every pose."""
import itertools
import math
import random
from fractions import Fraction as F

from .. import kernel as K
from .. import monitor as M
from .. import core, gen
from ..lib import load
from . import common as C

ID = "C14"
SENTINEL = True      # prelude cases (factory objects used and moved) are judged by the global-state sentinel here
HASH_ADMISSION = False
BUDGET = {"quick": 9600, "thorough": 160000}
SOFT = {"quick": 80, "thorough": 560}
RULE = ("Parallelogram / Parallelepiped over all independent lattice vector pairs / triples with |c|<=2 (sampled in quick, "
        "enumerated in thorough) and Circle / Cylinder / Cone / Sphere with centres on the lattice, radii in (0.25, 8), axis "
        "directions over all 26 lattice directions, random directions and near-axis directions (1e-9 .. 0.2 rad from +-x, +-y, "
        "+-z, including the exact axes), n in 3..24, Sphere n1 in 3..12, n2 in 2..5; judged: invariant hooks (valid closed "
        "convex body), V/E/F counts, every vertex on the specified circle(s) at equal angular steps, closed-form area / volume "
        "(rel 1e-9), arguments unchanged (purity snapshots); distinct by content hash")
BUILDERS = ("Parallelogram", "Parallelepiped", "Circle", "Cylinder", "Cone", "Sphere")
REQUIRED_FUNCS = ("get_circle_point_list", "ConvexPolygon.Circle", "ConvexPolygon.Parallelogram", "ConvexPolyhedron.Parallelepiped",
                  "ConvexPolyhedron.Sphere", "ConvexPolyhedron.Cylinder", "ConvexPolyhedron.Cone")
AXES = [(1, 0, 0), (-1, 0, 0), (0, 1, 0), (0, -1, 0), (0, 0, 1), (0, 0, -1)]
NEAR = (0.0, 0.0, 0.0, 1e-9, 1e-6, 1e-3, 0.05, 0.0999, 0.1001, 0.2)
_diag = {"max_rel_error": 0.0}


def required_cells(tier):
    q = tier == "quick"
    req = {}
    for b in BUILDERS:
        req["builder:" + b] = 150 if q else 4000
    for ax in ("+x", "-x", "+y", "-y", "+z", "-z"):
        req["axis-exact:" + ax] = 10
        req["axis-near:" + ax] = 30
    req["dir:lattice26"] = 200
    req["dir:random"] = 200
    req["history:hash-alike-axis-built-first"] = 100
    req["radius:Fraction"] = 200
    req["history:rejected-builder-call-first"] = 300
    req["radius:int"] = 200
    req["pose:minus1-minus2-slab-cube"] = 50
    req["history:same-builder-call-before,result-moved"] = 200
    req["radius:nudged-to-hash-rounding-boundary"] = 300
    for n in (3, 4, 5, 24):
        req["n:%d" % n] = 5
    return req


def _rand_axis(rng):
    r = rng.random()
    if r < 0.3:
        d = rng.choice(gen.PRIM_DIRS)
        s = rng.choice((F(1, 2), 1, 2, 3))
        return [float(c * s) for c in d], "lattice26"
    if r < 0.65:
        i = rng.randrange(6)
        ax = AXES[i]
        ang = rng.choice(NEAR)
        name = "+-"[ax[[j for j in range(3) if ax[j]][0]] < 0] + "xyz"[[j for j in range(3) if ax[j]][0]]
        if ang == 0.0:
            s = rng.choice((0.5, 1.0, 2.0, 3.5))
            return [c * s for c in ax], "axis-exact:" + name
        # tilt by ang towards a random perpendicular direction
        j = [t for t in range(3) if ax[t]][0]
        phi = rng.uniform(0, 2 * math.pi)
        e1 = [0.0, 0.0, 0.0]
        e2 = [0.0, 0.0, 0.0]
        e1[(j + 1) % 3] = 1.0
        e2[(j + 2) % 3] = 1.0
        s = rng.choice((0.5, 1.0, 2.0))
        d = [s * (math.cos(ang) * ax[t] + math.sin(ang) * (math.cos(phi) * e1[t] + math.sin(phi) * e2[t])) for t in range(3)]
        return d, "axis-near:" + name
    while True:
        d = [rng.uniform(-3, 3) for _ in range(3)]
        if math.sqrt(sum(c * c for c in d)) > 0.3:
            return d, "random"


def cases(rng, budget, widx, nworkers, tier):
    dirs2 = [v for v in itertools.product(range(-2, 3), repeat=3) if v != (0, 0, 0)]
    if tier == "thorough":
        idx = 0
        for u, v, w in itertools.combinations(dirs2, 3):
            idx += 1
            if idx % (nworkers * 40) != widx:     # every 40th independent triple, all workers together
                continue
            if K.det3(u, v, w) != 0:
                yield {"b": "Parallelepiped", "c": [rng.randint(-8, 8) / 2.0 for _ in range(3)], "vs": [list(map(float, x)) for x in (u, v, w)]}
    i = widx
    while True:
        b = BUILDERS[i % 6]
        i += 1
        c = [rng.randint(-16, 16) / 4.0 for _ in range(3)]
        if b == "Parallelogram":
            u, v = rng.sample(dirs2, 2)
            if K.cross(u, v) == (0, 0, 0):
                continue
            s = rng.choice((0.5, 1.0, 1.0, 2.0))
            yield {"b": b, "c": c, "vs": [[x * s for x in u], [float(x) for x in v]], "reject_first": rng.random() < 0.3}
        elif b == "Parallelepiped":
            if rng.random() < 0.12:
                # the unit cube (or a unit-square based box) between the coordinates -2 and -1 on one axis, [0,1] on the
                # others: its two end faces hash alike (CPython: hash(-1.0) == hash(-2.0))
                ax = rng.randrange(3)
                base = [0.0, 0.0, 0.0]
                e = [[1.0, 0.0, 0.0], [0.0, 1.0, 0.0], [0.0, 0.0, 1.0]]
                if rng.random() < 0.5:
                    base[ax] = -2.0
                else:
                    base[ax] = -1.0
                    e[ax][ax] = -1.0
                rng.shuffle(e)
                yield {"b": b, "c": base, "vs": e, "reject_first": False, "slab": True}
                continue
            u, v, w = rng.sample(dirs2, 3)
            if K.det3(u, v, w) == 0:
                continue
            s = rng.choice((0.5, 1.0, 1.0, 2.0))
            yield {"b": b, "c": c, "vs": [[x * s for x in u], [float(x) for x in v], [float(x) for x in w]], "reject_first": rng.random() < 0.3}
        elif b == "Sphere":
            yield {"b": b, "c": c, "r": rng.choice((0.25, 0.5, 1.0, 2.0, 3.0, 7.5)) if rng.random() < 0.5 else rng.uniform(0.26, 7.9),
                   "n1": rng.choice((3, 4, 5, 6, 8, 10, 12)), "n2": rng.choice((2, 2, 3, 3, 4, 5)), "rt": rng.choice(("float", "float", "float", "Fraction", "int")),
                   "tune": rng.getrandbits(24) if rng.random() < 0.3 else None}
        else:
            d, lab = _rand_axis(rng)
            twin = None
            if rng.random() < 0.12:
                # small integer axis containing -1 or -2, and its twin with those two values exchanged
                while True:
                    d = [float(rng.choice((-2, -1, -1, -2, 0, 1))) for _ in range(3)]
                    twin = [(-2.0 if x == -1.0 else (-1.0 if x == -2.0 else x)) for x in d]
                    if twin != d and any(d) and K.cross(d, twin) != (0, 0, 0):
                        break
                lab = "small-integer"
            n = rng.choice((3, 3, 4, 5, 6, 7, 8, 10, 12, 17, 24)) if rng.random() < 0.8 else rng.randint(3, 24)
            yield {"b": b, "c": c, "r": rng.choice((0.25, 0.5, 1.0, 2.0, 3.0, 7.5)) if rng.random() < 0.5 else rng.uniform(0.26, 7.9),
                   "axis": d, "n": n, "alab": lab, "twin_axis": twin, "rt": rng.choice(("float", "float", "float", "Fraction", "int")),
                   "reject_first": rng.choice((None, None, None, None, "Circle", "Cylinder", "Cone")),
                   "tune": rng.getrandbits(24) if rng.random() < 0.3 else None}


def _rel(mu, what, got, want, key):
    err = abs(got - want) / max(abs(want), 1e-300)
    if err > _diag["max_rel_error"] and err < 1:
        _diag["max_rel_error"] = err
    if not (err <= 1e-9):
        mu.fail(key + ":" + what.split("(")[0].strip() + "-wrong", "%s = %r, closed form %r (rel err %.3g)" % (what, got, want, err))


def _pts(o):
    return [(float(p.x), float(p.y), float(p.z)) for p in (o.points if M.kind(o) == "PG" else o.point_set)]


def _on_circle(mu, pts, c, nhat, r, n, key, what):
    """pts: exactly n points on the circle centre c, unit normal nhat, radius r, at equal angular steps"""
    if len(pts) != n:
        mu.fail(key + ":%s-count" % what, "%s has %d vertices, expected %d" % (what, len(pts), n))
        return
    tol = 1e-9 * max(1.0, r, K.norm(c))
    rel = [K.sub(p, c) for p in pts]
    for v in rel:
        if abs(K.norm(v) - r) > tol or abs(K.dot(v, nhat)) > tol:
            mu.fail(key + ":%s-vertex-off-circle" % what, "a vertex of the %s is at distance %r (radius %r), axial offset %r" % (what, K.norm(v), r, K.dot(v, nhat)))
            return
    # angular positions about nhat, phase free
    u = K.mul(rel[0], 1.0 / K.norm(rel[0]))
    w = K.cross(nhat, u)
    angs = sorted(math.atan2(K.dot(v, w), K.dot(v, u)) % (2 * math.pi) for v in rel)
    gaps = [(angs[(i + 1) % n] - angs[i]) % (2 * math.pi) for i in range(n)]
    if n > 1 and max(abs(g - 2 * math.pi / n) for g in gaps) > 1e-7:
        mu.fail(key + ":%s-unequal-angular-steps" % what, "angular gaps of the %s range %r..%r, expected %r" % (what, min(gaps), max(gaps), 2 * math.pi / n))


def _tune_radius(G, case, r, mu):
    """hostile pose: the radius is nudged (by < 1e-9) so that one coordinate of one vertex of the shape lands within a
    few ulps of a boundary of the 10-decimal rounding used by Point.__hash__ - a shape whose shared vertices are computed
    twice in slightly different ways then falls apart there.  The nudged radius is an ordinary radius of the quantified
    range; the case is judged like any other."""
    b, c = case["b"], case["c"]
    tr = random.Random(case["tune"])
    try:
        if b == "Sphere":
            o = G.Sphere(G.Point(*c), r, case["n1"], case["n2"])
        elif b == "Circle":
            o = G.Circle(G.Point(*c), G.Vector(*case["axis"]), r, case["n"])
        else:
            o = getattr(G, b)(G.Point(*c), r, G.Vector(*case["axis"]), case["n"])
        vs = sorted(tuple(float(x) for x in p) for p in (o.points if b == "Circle" else o.point_set))
    except Exception:
        return r
    for _ in range(8):
        v = tr.choice(vs)
        i = tr.randrange(3)
        a = (v[i] - c[i]) / r
        if abs(a) < 1e-3:
            continue
        bnd = (math.floor(v[i] * 1e10) + 0.5) / 1e10
        rr = (bnd - c[i]) / a
        for _k in range(tr.randrange(0, 3)):
            rr = math.nextafter(rr, tr.choice((math.inf, -math.inf)))
        if 0.25 < rr < 8 and abs(rr - r) < 1e-8:
            mu.cell("radius:nudged-to-hash-rounding-boundary")
            return rr
    return r


def judge(case):
    G = load()
    b = case["b"]
    mu = core.Multi()
    mu.cell("builder:" + b)
    c = case["c"]
    centre = G.Point(*c)
    key = b
    if b in ("Parallelogram", "Parallelepiped"):
        if case.get("reject_first"):
            mu.cell("history:rejected-builder-call-first")
            for fnm in ("Circle", "Cylinder", "Cone"):
                try:
                    if fnm == "Circle":
                        G.Circle(G.Point(*c), G.Vector(1, 2, 2), 1.5, 2)
                    else:
                        getattr(G, fnm)(G.Point(*c), 1.5, G.Vector(1, 2, 2), 2)
                except Exception:
                    pass
        if case.get("slab"):
            mu.cell("pose:minus1-minus2-slab-cube")
        vs = [G.Vector(*v) for v in case["vs"]]
        fn = getattr(G, b)
        obj, exc, imp = M.call(fn, centre, *vs)
        if exc is not None:
            mu.fail("%s:raises-%s" % (b, M.classify_exc(exc)), "%s(valid independent vectors %r) raised %s: %s" % (b, case["vs"], type(exc).__name__, exc))
            return mu.result()
        if imp:
            mu.fail(b + ":arguments-modified", "%s modified its arguments: %s" % (b, imp))
        bad = M.invariants(obj)
        if bad:
            mu.fail(b + ":invariant", "%s result: %s" % (b, bad[0]))
            return mu.result()
        fv = [tuple(v) for v in case["vs"]]
        fc = tuple(c)
        if b == "Parallelogram":
            want = [fc, K.add(fc, fv[0]), K.add(fc, K.add(fv[0], fv[1])), K.add(fc, fv[1])]
            area = K.norm(K.cross(fv[0], fv[1]))
            from ..desc import _match_sets
            if M.kind(obj) != "PG" or not _match_sets(_pts(obj), want, 1e-9 * 20):
                mu.fail(b + ":vertices", "Parallelogram vertices %r, expected %r" % (_pts(obj), want))
            else:
                _rel(mu, "area()", obj.area(), area, key)
                _rel(mu, "length()", obj.length(), 2 * (K.norm(fv[0]) + K.norm(fv[1])), key)
        else:
            want = [K.add(fc, K.add(K.mul(fv[0], i), K.add(K.mul(fv[1], j), K.mul(fv[2], k)))) for i in (0, 1) for j in (0, 1) for k in (0, 1)]
            from ..desc import _match_sets
            if M.kind(obj) != "PH" or not _match_sets(_pts(obj), want, 1e-9 * 20):
                mu.fail(b + ":vertices", "Parallelepiped vertices differ from base + {0,1}^3 combinations")
            elif (len(obj.point_set), len(obj.segment_set), len(obj.convex_polygons)) != (8, 12, 6):
                mu.fail(b + ":counts", "Parallelepiped (V,E,F) = %r" % ((len(obj.point_set), len(obj.segment_set), len(obj.convex_polygons)),))
            else:
                _rel(mu, "volume()", obj.volume(), abs(K.det3(*fv)), key)
                _rel(mu, "area()", obj.area(), 2 * (K.norm(K.cross(fv[0], fv[1])) + K.norm(K.cross(fv[1], fv[2])) + K.norm(K.cross(fv[0], fv[2]))), key)
                _rel(mu, "length()", obj.length(), 4 * (K.norm(fv[0]) + K.norm(fv[1]) + K.norm(fv[2])), key)
        return mu.result()
    r = case["r"]
    rt = case.get("rt")
    if rt == "Fraction":
        from fractions import Fraction as _F
        r = _F(r).limit_denominator(8)
        mu.cell("radius:Fraction")
    elif rt == "int":
        r = max(1, int(round(r)))
        mu.cell("radius:int")
    fc = tuple(c)
    if case.get("tune") is not None and rt not in ("Fraction", "int"):
        r = _tune_radius(G, case, float(r), mu)
    rarg = r
    r = float(r)
    if b == "Sphere":
        n1, n2 = case["n1"], case["n2"]
        if case.get("tune") is not None and case["tune"] % 3 == 0:
            # the same call was made before and its result moved away by the caller
            mu.cell("history:same-builder-call-before,result-moved")
            try:
                G.Sphere(G.Point(*c), rarg, n1, n2).move(G.Vector(1.5, -2.0, 0.25))
            except Exception:
                pass
        obj, exc, imp = M.call(lambda ce, rr: G.Sphere(ce, rr, n1, n2), centre, rarg)
        if exc is not None:
            mu.fail("Sphere:raises-%s" % M.classify_exc(exc), "Sphere(n1=%d,n2=%d,r=%r) raised %s: %s" % (n1, n2, r, type(exc).__name__, exc))
            return mu.result()
        if imp:
            mu.fail("Sphere:arguments-modified", imp)
        bad = M.invariants(obj)
        if bad:
            mu.fail("Sphere:invariant", "Sphere result: %s" % bad[0])
            return mu.result()
        V, E, Fc = len(obj.point_set), len(obj.segment_set), len(obj.convex_polygons)
        wantV, wantF = n1 * (2 * n2 - 1) + 2, 2 * n1 * n2
        if (V, Fc, E) != (wantV, wantF, wantV + wantF - 2):
            mu.fail("Sphere:counts", "Sphere(n1=%d,n2=%d) (V,E,F) = (%d,%d,%d), expected (%d,%d,%d)" % (n1, n2, V, E, Fc, wantV, wantV + wantF - 2, wantF))
            return mu.result()
        pts = _pts(obj)
        tol = 1e-9 * max(1.0, r, K.norm(fc))
        rings = {}
        for p in pts:
            v = K.sub(p, fc)
            if abs(K.norm(v) - r) > tol:
                mu.fail("Sphere:vertex-off-sphere", "vertex at distance %r from the centre, radius %r" % (K.norm(v), r))
                return mu.result()
            lat = math.asin(max(-1.0, min(1.0, v[2] / r)))
            j = round(lat / (math.pi / 2 / n2))
            if abs(lat - j * math.pi / 2 / n2) > 1e-7:
                mu.fail("Sphere:ring-latitude", "vertex latitude %r is not a multiple of (pi/2)/n2" % lat)
                return mu.result()
            rings.setdefault(j, []).append(p)
        for j, ps in rings.items():
            if abs(j) == n2:
                if len(ps) != 1:
                    mu.fail("Sphere:pole", "%d vertices at a pole" % len(ps))
            else:
                lat = j * math.pi / 2 / n2
                _on_circle(mu, ps, (fc[0], fc[1], fc[2] + r * math.sin(lat)), (0.0, 0.0, 1.0), r * math.cos(lat), n1, "Sphere", "ring")
        if mu.viol is None:
            # closed forms from the ring radii
            def A(rr):
                return n1 / 2.0 * rr * rr * math.sin(2 * math.pi / n1)
            vol = 0.0
            area = 0.0
            zs = [r * math.sin(j * math.pi / 2 / n2) for j in range(n2 + 1)]
            rs = [r * math.cos(j * math.pi / 2 / n2) for j in range(n2 + 1)]
            rs[n2] = 0.0
            for j in range(n2):
                h = zs[j + 1] - zs[j]
                A1, A2 = A(rs[j]), A(rs[j + 1])
                vol += h / 3.0 * (A1 + A2 + math.sqrt(A1 * A2))
                c1, c2 = 2 * rs[j] * math.sin(math.pi / n1), 2 * rs[j + 1] * math.sin(math.pi / n1)
                a1, a2 = rs[j] * math.cos(math.pi / n1), rs[j + 1] * math.cos(math.pi / n1)
                area += n1 * (c1 + c2) / 2.0 * math.sqrt(h * h + (a1 - a2) ** 2)
            _rel(mu, "volume()", obj.volume(), 2 * vol, "Sphere")
            _rel(mu, "area()", obj.area(), 2 * area, "Sphere")
        return mu.result()
    # Circle / Cylinder / Cone
    axis = tuple(case["axis"])
    n = case["n"]
    if case.get("reject_first"):
        # a builder call that is (rightly) rejected comes first and is caught by the caller, as a program would
        mu.cell("history:rejected-builder-call-first")
        for bad_n in (2, 1):
            try:
                tv = G.Vector(*axis)
                if case["reject_first"] == "Circle":
                    G.Circle(G.Point(*c), tv, r, bad_n)
                else:
                    getattr(G, case["reject_first"])(G.Point(*c), r, tv, bad_n)
            except Exception:
                pass
    if case.get("twin_axis"):
        # the same builder is first called with a different axis whose components hash alike in
        # Python (-1.0 / -2.0): whatever the first call leaves behind must not leak into the second
        mu.cell("history:hash-alike-axis-built-first")
        try:
            tv = G.Vector(*case["twin_axis"])
            if b == "Circle":
                G.Circle(G.Point(*c), tv, r, n)
            else:
                getattr(G, b)(G.Point(*c), r, tv, n)
        except Exception:
            pass
    lab = case["alab"]
    mu.cell(("dir:" + lab) if not lab.startswith("axis") else lab, "n:%d" % n)
    hv = G.Vector(*axis)
    na = K.norm(axis)
    nhat = K.mul(axis, 1.0 / na)
    key = "%s/%s" % (b, lab.split(":")[0] + (":" + lab.split(":")[1] if ":" in lab else ""))
    if case.get("tune") is not None and case["tune"] % 3 == 0:
        mu.cell("history:same-builder-call-before,result-moved")
        try:
            first = G.Circle(G.Point(*c), G.Vector(*axis), rarg, n) if b == "Circle" else getattr(G, b)(G.Point(*c), rarg, G.Vector(*axis), n)
            first.move(G.Vector(1.5, -2.0, 0.25))
        except Exception:
            pass
    if b == "Circle":
        obj, exc, imp = M.call(lambda ce, nv, rr: G.Circle(ce, nv, rr, n), centre, hv, rarg)
    else:
        obj, exc, imp = M.call(lambda ce, rr, nv: getattr(G, b)(ce, rr, nv, n), centre, rarg, hv)
    if exc is not None:
        mu.fail("%s:raises-%s/%s" % (b, M.classify_exc(exc), lab), "%s(axis=%r, n=%d, r=%r) raised %s: %s" % (b, axis, n, r, type(exc).__name__, exc))
        return mu.result()
    if imp:
        mu.fail(b + ":arguments-modified", "%s modified its arguments: %s" % (b, imp))
    bad = M.invariants(obj)
    if bad:
        mu.fail("%s:invariant/%s" % (b, lab.split(":")[0]), "%s(axis=%r, n=%d) result: %s" % (b, axis, n, bad[0]))
        return mu.result()
    Angon = n / 2.0 * r * r * math.sin(2 * math.pi / n)
    chord = 2 * r * math.sin(math.pi / n)
    pts = _pts(obj)
    if b == "Circle":
        if M.kind(obj) != "PG":
            mu.fail("Circle:type", "Circle returned %s" % M.kind(obj))
            return mu.result()
        _on_circle(mu, pts, fc, nhat, r, n, "Circle", "circle")
        if mu.viol is None:
            _rel(mu, "area()", obj.area(), Angon, "Circle")
            _rel(mu, "length()", obj.length(), n * chord, "Circle")
        return mu.result()
    top = K.add(fc, axis)
    tol = 1e-9 * max(1.0, r, K.norm(fc), na)
    V, E, Fc = len(obj.point_set), len(obj.segment_set), len(obj.convex_polygons)
    if b == "Cylinder":
        if (V, E, Fc) != (2 * n, 3 * n, n + 2):
            mu.fail("Cylinder:counts", "Cylinder(n=%d) (V,E,F) = (%d,%d,%d)" % (n, V, E, Fc))
            return mu.result()
        lo = [p for p in pts if abs(K.dot(K.sub(p, fc), nhat)) <= tol]
        hi = [p for p in pts if abs(K.dot(K.sub(p, top), nhat)) <= tol]
        _on_circle(mu, lo, fc, nhat, r, n, "Cylinder", "bottom circle")
        _on_circle(mu, hi, top, nhat, r, n, "Cylinder", "top circle")
        if mu.viol is None:
            _rel(mu, "volume()", obj.volume(), Angon * na, "Cylinder")
            _rel(mu, "area()", obj.area(), 2 * Angon + n * chord * na, "Cylinder")
    else:
        if (V, E, Fc) != (n + 1, 2 * n, n + 1):
            mu.fail("Cone:counts", "Cone(n=%d) (V,E,F) = (%d,%d,%d)" % (n, V, E, Fc))
            return mu.result()
        apex = [p for p in pts if K.norm(K.sub(p, top)) <= tol]
        base = [p for p in pts if K.norm(K.sub(p, top)) > tol]
        if len(apex) != 1:
            mu.fail("Cone:apex", "no vertex at centre + height vector")
            return mu.result()
        _on_circle(mu, base, fc, nhat, r, n, "Cone", "base circle")
        if mu.viol is None:
            _rel(mu, "volume()", obj.volume(), Angon * na / 3.0, "Cone")
            slant = math.sqrt(na * na + (r * math.cos(math.pi / n)) ** 2)
            _rel(mu, "area()", obj.area(), Angon + n * chord / 2.0 * slant, "Cone")
    return mu.result()


def worker_report():
    return {"max_rel_error_seen": {"max": _diag["max_rel_error"]}}


def describe(case):
    return dict(case)
