"""A small polynomial ring over Q used as a *shadow value* type: indeterminates
are pushed through the real Vector/Point code.  Any attempt to branch on a
coordinate (truth value, comparison, abs, float conversion) raises, so a
successful run proves the executed path did not depend on coordinate values."""
from fractions import Fraction as F


class BranchOnValue(Exception):
    pass


class Poly(object):
    __slots__ = ("t",)
    ops = 0          # arithmetic operations observed (monitor counter)

    def __init__(self, x=0):
        if isinstance(x, Poly):
            self.t = dict(x.t)
        elif isinstance(x, dict):
            self.t = {k: v for k, v in x.items() if v != 0}
        else:
            c = F(x)
            self.t = {(): c} if c != 0 else {}

    @staticmethod
    def var(name):
        return Poly({((name, 1),): F(1)})

    def _coerce(self, o):
        if isinstance(o, Poly):
            return o
        if isinstance(o, (int, F)) and not isinstance(o, bool):
            return self.__class__(o)
        return None

    def __add__(self, o):
        o = self._coerce(o)
        if o is None:
            return NotImplemented
        Poly.ops += 1
        t = dict(self.t)
        for k, v in o.t.items():
            t[k] = t.get(k, 0) + v
        return self.__class__(t)

    __radd__ = __add__

    def __neg__(self):
        Poly.ops += 1
        return self.__class__({k: -v for k, v in self.t.items()})

    def __sub__(self, o):
        o = self._coerce(o)
        if o is None:
            return NotImplemented
        return self + (-o)

    def __rsub__(self, o):
        o = self._coerce(o)
        if o is None:
            return NotImplemented
        return o + (-self)

    def __mul__(self, o):
        o = self._coerce(o)
        if o is None:
            return NotImplemented
        Poly.ops += 1
        t = {}
        for k1, v1 in self.t.items():
            for k2, v2 in o.t.items():
                d = dict(k1)
                for n, e in k2:
                    d[n] = d.get(n, 0) + e
                k = tuple(sorted(d.items()))
                t[k] = t.get(k, 0) + v1 * v2
        return self.__class__(t)

    __rmul__ = __mul__

    def same(self, o):
        o = self._coerce(o)
        return o is not None and self.t == o.t

    def is_zero(self):
        return not self.t

    # anything that would let code branch on the value
    def _branch(self, *a):
        raise BranchOnValue("library code inspected the value of a ring element")

    __bool__ = __lt__ = __le__ = __gt__ = __ge__ = __abs__ = __float__ = __int__ = __round__ = _branch

    def __eq__(self, o):
        raise BranchOnValue("library code compared ring elements")

    def __ne__(self, o):
        raise BranchOnValue("library code compared ring elements")

    __hash__ = None

    def __format__(self, spec):
        return "<poly>"

    def __repr__(self):
        if not self.t:
            return "0"
        out = []
        for k, v in sorted(self.t.items()):
            m = "*".join(n if e == 1 else "%s^%d" % (n, e) for n, e in k)
            out.append(("%s*%s" % (v, m)) if m and v != 1 else (m or str(v)))
        return " + ".join(out)



class Poly2(Poly):
    """a second, different user-defined ring type (same arithmetic): a process may well use two"""
    __slots__ = ()


# Poly2 is also registered in Python's numeric tower (numbers.Real), as user number types often are: the library must
# still treat it as the user's type and never convert it
import numbers as _numbers
_numbers.Real.register(Poly2)
