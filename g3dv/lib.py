"""Load the library under test from VERIF_REPO (default /repo), never a copy."""
import logging
import os
import sys

REPO = os.path.realpath(os.environ.get("VERIF_REPO", "/repo"))
_G = None


def load():
    global _G
    if _G is not None:
        return _G
    if REPO not in sys.path:
        sys.path.insert(0, REPO)
    import Geometry3D as G
    here = os.path.realpath(G.__file__)
    if not here.startswith(REPO + os.sep):
        raise RuntimeError("Geometry3D imported from %s, not from %s" % (here, REPO))
    # the library configures the root logger at import; keep the workers quiet
    logging.disable(logging.CRITICAL)
    _G = G
    return G


def module(name):
    """a Geometry3D submodule by dotted name (Geometry3D.calc.intersection the
    attribute is the *function*; the module has to come from sys.modules)"""
    load()
    return sys.modules["Geometry3D." + name]
