"""Descriptors <-> real library objects, JSON encoding, comparators."""
from fractions import Fraction as F
import math
import random
import re

from . import kernel as K
from .lib import load

_FR = re.compile(r"^-?\d+(/\d+)?$")


# --------------------------------------------------------------------------
# JSON

def enc(x):
    if isinstance(x, F):
        return str(x.numerator) if x.denominator == 1 else "%d/%d" % (x.numerator, x.denominator)
    if isinstance(x, bool) or x is None:
        return x
    if isinstance(x, int):
        return x
    if isinstance(x, float):
        return {"f": repr(x)}
    if isinstance(x, str):
        return "$" + x
    if isinstance(x, (tuple, list)):
        return [enc(y) for y in x]
    if isinstance(x, dict):
        return {"d": [[enc(k), enc(v)] for k, v in x.items()]}
    if isinstance(x, (set, frozenset)):
        return [enc(y) for y in sorted(x)]
    raise TypeError(type(x))


def dec(x):
    if isinstance(x, str):
        if x.startswith("$"):
            return x[1:]
        if _FR.match(x):
            return F(x)
        return x
    if isinstance(x, list):
        return tuple(dec(y) for y in x)
    if isinstance(x, dict):
        if "f" in x and len(x) == 1:
            return float(x["f"])
        if "d" in x and len(x) == 1:
            return {dec(k): dec(v) for k, v in x["d"]}
        return {k: dec(v) for k, v in x.items()}
    return x


def show(d):
    """short human-readable form of a descriptor for samples / witnesses"""
    if d is None:
        return "None"
    if isinstance(d, F):
        return str(d)
    if isinstance(d, float):
        return "%.12g" % d
    if isinstance(d, (tuple, list)):
        return "(" + ",".join(show(x) for x in d) + ")"
    return str(d)


# --------------------------------------------------------------------------
# lifting descriptors to library objects through the public constructors

def negzero(x):
    """float with zero written as -0.0 (what negating or scaling a zero coordinate produces)"""
    x = float(x)
    return -0.0 if x == 0 else x


def noisy(rng, ulps=4):
    """numeric type for ``lift``: floats carrying the rounding noise a computed value has (a few units in the last place;
    a zero becomes 0.0 or +-1e-17 .. +-2.2e-16).  Every call draws afresh, so two copies of one vertex differ in their last
    bits the way two faces of an intersection result hold them.  Far below the library's tolerance (1e-10): the object
    denotes the same set for every comparison the library makes."""
    def f(x):
        x = float(x)
        j = rng.randint(-ulps, ulps)
        if x == 0.0:
            return (0.0, 0.0, 1e-17, -1e-17, 2.2e-16, -2.2e-16, -0.0)[rng.randrange(7)] if j else 0.0
        return x * (1.0 + j * 1.1102230246251565e-16)
    f.noisy = True
    return f


def num(x, nt):
    if nt is float:
        return float(x)
    if getattr(nt, "noisy", False):
        return nt(x)
    if nt is negzero:
        return negzero(x)
    if nt is int:
        if x != int(x):
            raise ValueError("not integral")
        return int(x)
    return F(x)


STATS = {"built": 0, "touched": 0, "fallback": 0, "siblings": 0, "via_negation": 0, "lifts_from_points_with_a_past": 0,
         "alias_moves": 0, "alias_reread_failed": 0, "lifts_with_caller_points_moved_afterwards": 0,
         "lifts_through_Parallelepiped_builder": 0, "results_moved_by_the_caller": 0, "moved_in_two_steps": 0,
         "built_with_int_coordinates": 0, "built_with_Fraction_coordinates": 0, "segments_placed_by_item_assignment": 0,
         "lifts_with_direction_vector_rescaled_afterwards": 0, "lifts_with_faces_moved_into_place": 0}      # shared with props.common.HIST_STATS


def lift(d, rng=None, nt=float, form=None, past=None):
    """build the real object.  ``rng`` (random.Random) picks among equivalent
    constructor forms / vertex orders; None = canonical form."""
    G = load()
    k = d[0]
    r = rng
    # "points with a past": every caller-side Point handed to a constructor in this lift has first been used to build
    # lines / segments / half lines that were then moved away - the Point itself must not have noticed
    season = r is not None and k not in ("P", "VEC") and (r.random() < 0.07 or past)
    if season:
        STATS["lifts_from_points_with_a_past"] += 1
    # "the caller goes on using its Points": after the object has been built the caller's own Point objects are moved
    # elsewhere.  (Not for Plane, which shares its point with the caller by design.)
    argmove = r is not None and k in ("L", "H", "S", "PG", "PH") and r.random() < 0.05
    mine = []

    def P(p):
        if r is not None and r.random() < 0.15:
            pt = G.Point([num(c, nt) for c in p])
        else:
            pt = G.Point(num(p[0], nt), num(p[1], nt), num(p[2], nt))
        if season and r.random() < 0.3:
            # ... or the Point was something else first: hashed and compared there, then given its coordinates by item
            # assignment
            try:
                pt = G.Point(float(p[0]) + 1.0, float(p[1]) - 0.5, float(p[2]) + 2.0)
                hash(pt), pt == pt, {pt}
                for i in range(3):
                    pt[i] = num(p[i], nt)
            except Exception:
                pass
        elif season and r.random() < 0.6:
            w = G.Vector(*r.choice(((0.5, -1.0, 2.0), (-2.0, 0.25, 1.0), (1.0, 3.0, -0.5))))
            try:
                G.Line(pt, G.Vector(1.0, 2.0, 2.0)).move(w)
                G.Line(pt, G.Point(float(p[0]) + 1.0, float(p[1]) - 2.0, float(p[2]) + 0.5)).move(w)
                G.Segment(pt, G.Vector(0.5, 1.0, -1.0)).move(w)
                G.HalfLine(pt, G.Vector(-1.0, 0.5, 1.0)).move(w)
            except Exception:
                pass
        mine.append(pt)
        return pt

    def done(o):
        if argmove and mine:
            STATS["lifts_with_caller_points_moved_afterwards"] += 1
            for j, q in enumerate(mine):
                try:
                    q.move(G.Vector(1.0 + j, -2.0, 0.5 * j + 0.5))
                except Exception:
                    pass
        return o

    dirvecs = []

    def Vv(p):
        return G.Vector(num(p[0], nt), num(p[1], nt), num(p[2], nt))

    def Dv(p):
        """a direction / normal Vector the caller keeps and may rescale afterwards (see rescaled())"""
        v = Vv(p)
        dirvecs.append((v, p))
        return v

    def rescaled(o):
        """the caller doubles its own direction / normal Vector in place after the object was built from it: whether
        the object keeps a copy or follows the caller's Vector, it denotes the same set (same direction)"""
        if r is None or not dirvecs:
            return o
        unit = any(K.dot(p, p) == 1 for _v, p in dirvecs)
        if r.random() < (0.5 if unit else 0.05):
            STATS["lifts_with_direction_vector_rescaled_afterwards"] += 1
            for v, _p in dirvecs:
                try:
                    for i in range(3):
                        v[i] = v[i] * 2
                except Exception:
                    pass
        return o
    if k == "P":
        return P(d[1])
    if k == "VEC":
        return Vv(d[1])
    if k == "L":
        f = form if form is not None else (r.randrange(3) if r else 0)
        if f == 0:
            return rescaled(done(G.Line(P(d[1]), Dv(d[2]))))
        if f == 1:
            return done(G.Line(P(d[1]), P(K.add(d[1], d[2]))))
        return rescaled(G.Line(Vv(d[1]), Dv(d[2])))
    if k == "H":
        f = form if form is not None else (r.randrange(2) if r else 0)
        if f == 0:
            return rescaled(done(G.HalfLine(P(d[1]), Dv(d[2]))))
        return done(G.HalfLine(P(d[1]), P(K.add(d[1], d[2]))))
    if k == "S":
        f = form if form is not None else (r.randrange(2) if r else 0)
        if f == 0:
            return done(G.Segment(P(d[1]), P(d[2])))
        return done(G.Segment(P(d[1]), Vv(K.sub(d[2], d[1]))))
    if k == "PL":
        f = form if form is not None else (r.randrange(4) if r else 0)
        if f == 0:
            return rescaled(G.Plane(P(d[1]), Dv(d[2])))
        if f == 3:
            # general form a x + b y + c z = d with the (non-unit) exact coefficients
            n = d[2]
            return G.Plane(num(n[0], nt), num(n[1], nt), num(n[2], nt), num(K.dot(n, d[1]), nt))
        u, v = plane_basis(d[2])
        if f == 1:
            return G.Plane(P(d[1]), Vv(u), Vv(v))
        return G.Plane(P(d[1]), P(K.add(d[1], u)), P(K.add(d[1], v)))
    if k == "PG":
        vs = list(d[1])
        if r is not None:
            m = r.random()
            if m < 0.5:
                r.shuffle(vs)
            else:
                s = r.randrange(len(vs))
                vs = vs[s:] + vs[:s]
                if r.random() < 0.5:
                    vs.reverse()
        pg = G.ConvexPolygon(tuple(P(v) for v in vs))
        if r is not None and r.random() < 0.12:
            pg = -pg                      # the same set, obtained as the negation of a polygon
        return done(pg)
    if k == "PH":
        faces = list(d[2])
        if r is not None and r.random() < 0.3:
            pp = parallelepiped_of(d)
            if pp is not None:
                # a parallelepiped may as well come from the library's own builder (any corner, any order of the edges)
                STATS["lifts_through_Parallelepiped_builder"] += 1
                base, es = r.choice(pp)
                es = list(es)
                r.shuffle(es)
                return G.Parallelepiped(P(base), *[Vv(e) for e in es])
        if r is not None:
            r.shuffle(faces)
        premove = None
        if r is not None and r.random() < 0.06:
            STATS["lifts_with_faces_moved_into_place"] += 1
            premove = tuple(F(r.randint(-6, 6), r.choice((1, 2))) for _ in range(3))
            if nt is int:
                premove = tuple(F(int(c)) for c in premove)
        polys = []
        for fc in faces:
            vs = list(fc)
            if r is not None:
                s = r.randrange(len(vs))
                vs = vs[s:] + vs[:s]
                if r.random() < 0.5:
                    vs.reverse()
            if premove is not None and r.random() < 0.6:
                # this face is built elsewhere, measured there and moved into place (the moved receiver is the face)
                fpg = G.ConvexPolygon(tuple(P(K.sub(v, premove)) for v in vs))
                try:
                    fpg.area(), hash(fpg)
                except Exception:
                    pass
                fpg.move(G.Vector(*[num(c, nt) for c in premove]))
            else:
                fpg = G.ConvexPolygon(tuple(P(v) for v in vs))
            if r is not None and r.random() < 0.08:
                fpg = -fpg
            polys.append(fpg)
        return done(G.ConvexPolyhedron(tuple(polys)))
    raise ValueError(k)


def parallelepiped_of(d):
    """for a PH descriptor that is a parallelepiped: list of (corner, (e1, e2, e3)) for every corner; else None"""
    vs = d[1]
    if len(vs) != 8 or len(d[2]) != 6 or any(len(f) != 4 for f in d[2]):
        return None
    nb = {v: set() for v in vs}
    for f in d[2]:
        for i in range(4):
            a, b = f[i], f[(i + 1) % 4]
            nb[a].add(b)
            nb[b].add(a)
    out = []
    vset = set(vs)
    for b in vs:
        if len(nb[b]) != 3:
            return None
        es = tuple(K.sub(q, b) for q in sorted(nb[b]))
        combos = {K.add(b, K.add(K.mul(es[0], i), K.add(K.mul(es[1], j), K.mul(es[2], k)))) for i in (0, 1) for j in (0, 1) for k in (0, 1)}
        if combos != vset:
            return None
        out.append((b, es))
    return out


def plane_basis(n):
    """two independent exact vectors orthogonal to n"""
    cands = [K.cross(n, e) for e in ((1, 0, 0), (0, 1, 0), (0, 0, 1))]
    cands = [c for c in cands if c[0] != 0 or c[1] != 0 or c[2] != 0]
    u = cands[0]
    for v in cands[1:]:
        c = K.cross(u, v)
        if c[0] != 0 or c[1] != 0 or c[2] != 0:
            return u, v
    raise ValueError("no basis")


# --------------------------------------------------------------------------
# lowering library objects to float descriptors

def _pt(p):
    return (float(p.x), float(p.y), float(p.z))


def _vec(v):
    return (float(v[0]), float(v[1]), float(v[2]))


def kind_of(o):
    G = load()
    if o is None:
        return "None"
    for cls, name in ((G.Point, "P"), (G.Line, "L"), (G.HalfLine, "H"), (G.Segment, "S"),
                      (G.Plane, "PL"), (G.ConvexPolygon, "PG"), (G.ConvexPolyhedron, "PH"),
                      (G.Vector, "VEC")):
        if type(o) is cls or isinstance(o, cls):
            return name
    return type(o).__name__


def lower(o):
    """float descriptor of a library object (what it denotes, read from its
    public attributes)"""
    k = kind_of(o)
    if k == "None":
        return None
    if k == "P":
        return ("P", _pt(o))
    if k == "VEC":
        return ("VEC", _vec(o))
    if k == "L":
        return ("L", _vec(o.sv), _vec(o.dv))
    if k == "H":
        return ("H", _pt(o.point), _vec(o.vector))
    if k == "S":
        return ("S", _pt(o.start_point), _pt(o.end_point))
    if k == "PL":
        return ("PL", _pt(o.p), _vec(o.n))
    if k == "PG":
        return ("PG", tuple(_pt(p) for p in o.points))
    if k == "PH":
        return ("PH", tuple(_pt(p) for p in o.point_set),
                tuple(tuple(_pt(p) for p in f.points) for f in o.convex_polygons))
    return ("?", repr(o))


def exact_of_float(d):
    """exact (Fraction) descriptor of a float descriptor, or None when some
    coordinate is not a small dyadic rational (denominator <= 2**10)"""
    def cv(x):
        if isinstance(x, float):
            f = F(x)
            if f.denominator > 1024:
                raise OverflowError
            return f
        if isinstance(x, tuple):
            return tuple(cv(y) for y in x)
        return x
    try:
        return cv(d)
    except (OverflowError, ValueError):
        return None


# --------------------------------------------------------------------------
# comparators: "denotes the same set"

TOL = 1e-7


def _close(p, q, tol=TOL):
    return abs(p[0] - q[0]) <= tol and abs(p[1] - q[1]) <= tol and abs(p[2] - q[2]) <= tol


def _fnorm(a):
    return math.sqrt(a[0] * a[0] + a[1] * a[1] + a[2] * a[2])


def _parallel(u, v, tol=TOL):
    c = K.cross(u, v)
    nu, nv = _fnorm(u), _fnorm(v)
    if nu == 0 or nv == 0:
        return False
    return _fnorm(c) / (nu * nv) <= tol


def _match_sets(A, B, tol=TOL):
    """bijection within tol between two finite point lists"""
    if len(A) != len(B):
        return False
    B = list(B)
    for p in A:
        hit = None
        for i, q in enumerate(B):
            if _close(p, q, tol):
                hit = i
                break
        if hit is None:
            return False
        B.pop(hit)
    return True


def same_set(got, exp, tol=TOL):
    """got: float descriptor lowered from a library object (or None);
    exp: exact/float descriptor from the oracle (or None).  -> (bool, reason)"""
    if got is None or exp is None:
        if got is None and exp is None:
            return True, ""
        return False, "expected %s, got %s" % ("None" if exp is None else exp[0], "None" if got is None else got[0])
    kg, ke = got[0], exp[0]
    ke_n = {"PGS": "PG", "PHS": "PH"}.get(ke, ke)
    if kg != ke_n:
        return False, "kind: expected %s, got %s" % (ke_n, kg)
    if kg == "P":
        return (_close(got[1], K.fl(exp[1]), tol), "point differs")
    if kg == "S":
        a, b = got[1], got[2]
        p, q = K.fl(exp[1]), K.fl(exp[2])
        ok = (_close(a, p, tol) and _close(b, q, tol)) or (_close(a, q, tol) and _close(b, p, tol))
        return ok, "segment endpoints differ"
    if kg == "H":
        if not _close(got[1], K.fl(exp[1]), tol):
            return False, "halfline origin differs"
        u, v = got[2], K.fl(exp[2])
        if not _parallel(u, v, tol) or K.dot(u, v) <= 0:
            return False, "halfline direction differs"
        return True, ""
    if kg == "L":
        u, v = got[2], K.fl(exp[2])
        if not _parallel(u, v, tol):
            return False, "line direction differs"
        w = K.sub(got[1], K.fl(exp[1]))
        if _fnorm(K.cross(w, v)) / _fnorm(v) > tol:
            return False, "line support point off the expected line"
        return True, ""
    if kg == "PL":
        u, v = got[2], K.fl(exp[2])
        if not _parallel(u, v, tol):
            return False, "plane normal differs"
        w = K.sub(got[1], K.fl(exp[1]))
        if abs(K.dot(w, v)) / _fnorm(v) > tol:
            return False, "plane point off the expected plane"
        return True, ""
    if kg in ("PG", "PH"):
        ev = [K.fl(v) for v in exp[1]]
        gv = list(got[1])
        if not _match_sets(gv, ev, tol):
            return False, "%s vertex set differs (%d got, %d expected)" % (kg, len(gv), len(ev))
        return True, ""
    return False, "unknown kind " + kg


def same_float(a, b, tol=TOL):
    """do two *lowered library results* denote the same set"""
    return same_set(a, b, tol)


# --------------------------------------------------------------------------
# exact transforms of descriptors (C13, C07)

def xform(d, M, t, k):
    """apply x -> k * M x + t (M a signed permutation matrix as 3 (index, sign)
    pairs, t a vector, k > 0) to a descriptor"""
    if d is None:
        return None

    def pt(p):
        q = tuple(p[i] * s for i, s in M)
        return (q[0] * k + t[0], q[1] * k + t[1], q[2] * k + t[2])

    def vec(p):
        q = tuple(p[i] * s for i, s in M)
        return (q[0] * k, q[1] * k, q[2] * k)
    kd = d[0]
    if kd == "P":
        return ("P", pt(d[1]))
    if kd == "VEC":
        return ("VEC", vec(d[1]))
    if kd in ("L", "H", "PL"):
        return (kd, pt(d[1]), vec(d[2]))
    if kd == "S":
        return ("S", pt(d[1]), pt(d[2]))
    if kd in ("PG", "PGS", "PHS"):
        return (kd, tuple(pt(v) for v in d[1]))
    if kd == "PH":
        return ("PH", tuple(pt(v) for v in d[1]), tuple(tuple(pt(v) for v in f) for f in d[2]))
    raise ValueError(kd)


def translate(d, t):
    return xform(d, ((0, 1), (1, 1), (2, 1)), t, 1)
