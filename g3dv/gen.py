"""Workload generators: exact lattice descriptors, body families, scenario
constructors.  Everything is driven by a random.Random passed in."""
from fractions import Fraction as F
import itertools

from . import kernel as K
from .kernel import add, sub, mul, dot, cross, V

KINDS = ("P", "L", "H", "S", "PL", "PG", "PH")
FLAT = ("P", "L", "H", "S", "PL")
NAMES = {"P": "Point", "L": "Line", "H": "HalfLine", "S": "Segment", "PL": "Plane",
         "PG": "ConvexPolygon", "PH": "ConvexPolyhedron"}

PRIM_DIRS = [V(a, b, c) for a in (-1, 0, 1) for b in (-1, 0, 1) for c in (-1, 0, 1) if (a, b, c) != (0, 0, 0)]


def nz(v):
    return v[0] != 0 or v[1] != 0 or v[2] != 0


def rpt(rng, R=4, dens=(1, 1, 2, 2, 4)):
    d = rng.choice(dens)
    return tuple(F(rng.randint(-R * d, R * d), d) for _ in range(3))


def rdir(rng, R=3):
    if rng.random() < 0.4:
        return rng.choice(PRIM_DIRS)
    while True:
        v = tuple(F(rng.randint(-R, R)) for _ in range(3))
        if nz(v):
            return v


def coords_of(d):
    if d is None:
        return
    k = d[0]
    if k in ("P", "VEC"):
        yield from d[1]
    elif k in ("L", "H", "PL"):
        yield from d[1]
        yield from d[2]
    elif k == "S":
        yield from d[1]
        yield from d[2]
    elif k in ("PG", "PGS", "PHS"):
        for v in d[1]:
            yield from v
    elif k == "PH":
        for v in d[1]:
            yield from v


def ok_coords(d, maxden=8, maxabs=12):
    for c in coords_of(d):
        c = F(c)
        if c.denominator > maxden or (c.denominator & (c.denominator - 1)) or abs(c) > maxabs:
            return False
    return True


# --------------------------------------------------------------------------
# bodies

def rand_polygon(rng, kmin=3, kmax=8, R=4):
    for _ in range(200):
        p = rpt(rng, R)
        u = rdir(rng)
        v = rdir(rng)
        n = cross(u, v)
        if not nz(n):
            continue
        k = rng.randint(kmin, kmax)
        den = rng.choice((1, 1, 2))
        pts = [add(p, add(mul(u, F(rng.randint(-3 * den, 3 * den), den)),
                          mul(v, F(rng.randint(-3 * den, 3 * den), den)))) for _ in range(k + 2)]
        h = K.hull2d(pts, n)
        if len(h) >= 3 and len(h) <= kmax:
            d = ("PG", tuple(h))
            if ok_coords(d):
                return d
    return ("PG", (V(0, 0, 0), V(2, 0, 0), V(0, 2, 0)))


def regular_ish_polygon(rng, m):
    """a convex lattice m-gon (m in 3..8) in a random lattice plane"""
    shapes = {
        3: [(0, 0), (2, 0), (0, 2)],
        4: [(0, 0), (2, 0), (3, 2), (1, 3)],
        5: [(0, 0), (2, 0), (3, 1), (2, 3), (0, 2)],
        6: [(1, 0), (2, 0), (3, 1), (2, 2), (1, 2), (0, 1)],
        7: [(1, 0), (2, 0), (3, 1), (3, 2), (2, 3), (1, 3), (0, 1)],
        8: [(1, 0), (2, 0), (3, 1), (3, 2), (2, 3), (1, 3), (0, 2), (0, 1)],
        9: [(2, 0), (3, 1), (3, 3), (2, 5), (0, 6), (-2, 5), (-3, 3), (-2, 1), (0, 0)],
        12: [(2, 0), (4, 1), (5, 3), (5, 5), (4, 7), (2, 8), (0, 8), (-2, 7), (-3, 5), (-3, 3), (-2, 1), (0, 0)],
        10: [(1, 0), (3, 0), (4, 1), (5, 3), (4, 5), (3, 6), (1, 6), (0, 5), (-1, 3), (0, 1)],
    }
    for _ in range(100):
        p = rpt(rng, 3, (1, 2))
        u = rdir(rng, 2)
        v = rdir(rng, 2)
        if not nz(cross(u, v)):
            continue
        s = rng.choice((F(1, 2), F(1), F(1))) if m < 9 else F(1, 2)
        d = ("PG", tuple(add(p, add(mul(u, s * a), mul(v, s * b))) for a, b in shapes[m]))
        if ok_coords(d, 8, 16 if m >= 9 else 12):
            return d
    return rand_polygon(rng)


def prism(rng, base=None):
    for _ in range(100):
        pg = base or rand_polygon(rng, 3, 6, 3)
        n = K.polygon_normal(pg[1])
        h = rdir(rng, 2)
        if dot(h, n) == 0:
            continue
        h = mul(h, rng.choice((F(1, 2), F(1), F(2))))
        pts = list(pg[1]) + [add(v, h) for v in pg[1]]
        d = K.hull3d(pts)
        if d and ok_coords(d):
            return d
    return box(rng)


def pyramid(rng, base=None):
    for _ in range(100):
        pg = base or rand_polygon(rng, 3, 6, 3)
        n = K.polygon_normal(pg[1])
        apex = rpt(rng, 4, (1, 2))
        if dot(sub(apex, pg[1][0]), n) == 0:
            continue
        d = K.hull3d(list(pg[1]) + [apex])
        if d and ok_coords(d):
            return d
    return tetra(rng)


def bipyramid(rng):
    for _ in range(100):
        pg = rand_polygon(rng, 3, 5, 3)
        n = K.polygon_normal(pg[1])
        c = pg[1][0]
        h1 = rdir(rng, 2)
        h2 = rdir(rng, 2)
        if dot(h1, n) * dot(h2, n) >= 0:
            continue
        m = mul(add(pg[1][0], pg[1][1]), F(1, 2))
        d = K.hull3d(list(pg[1]) + [add(m, h1), add(m, h2)])
        if d and ok_coords(d):
            return d
    return tetra(rng)


def tetra(rng):
    while True:
        pts = [rpt(rng, 4, (1, 1, 2)) for _ in range(4)]
        d = K.hull3d(pts)
        if d:
            return d


def box(rng):
    while True:
        p = rpt(rng, 3, (1, 2))
        u, v, w = rdir(rng, 2), rdir(rng, 2), rdir(rng, 2)
        if K.det3(u, v, w) == 0:
            continue
        s = rng.choice((F(1, 2), F(1), F(1), F(2)))
        u, v, w = mul(u, s), mul(v, s), mul(w, s)
        pts = [add(p, add(mul(u, a), add(mul(v, b), mul(w, c)))) for a in (0, 1) for b in (0, 1) for c in (0, 1)]
        d = K.hull3d(pts)
        if d and ok_coords(d):
            return d


def axis_box(rng):
    p = rpt(rng, 3, (1, 2))
    e = [F(rng.randint(1, 4), rng.choice((1, 2))) for _ in range(3)]
    pts = [add(p, (e[0] * a, e[1] * b, e[2] * c)) for a in (0, 1) for b in (0, 1) for c in (0, 1)]
    return K.hull3d(pts)


def general_hull(rng, kmin=5, kmax=9):
    while True:
        k = rng.randint(kmin, kmax)
        pts = [rpt(rng, 3, (1, 1, 2)) for _ in range(k)]
        d = K.hull3d(pts)
        if d and len(d[1]) >= 4:
            return d


def big_prism(rng):
    """prism over a lattice decagon: 12 faces, 20 vertices"""
    for _ in range(50):
        base = regular_ish_polygon(rng, 10)
        if len(base[1]) != 10:
            continue
        n = K.polygon_normal(base[1])
        h = rdir(rng, 2)
        if dot(h, n) == 0:
            continue
        d = K.hull3d(list(base[1]) + [add(v, h) for v in base[1]])
        if d and ok_coords(d, 8, 16):
            return d
    return None


SPLIT_FACES = [0.0]      # probability that a generated polyhedron hands one face over as two coplanar polygons (a closed
                         # face set the constructor accepts, but not "the faces of the body": only the membership and
                         # measure checks switch this on, the properties about intersections and canonical form quantify
                         # over bodies given by their proper faces)


def rand_polyhedron(rng, small=False):
    d = _rand_polyhedron(rng, small)
    if SPLIT_FACES[0] and rng.random() < SPLIT_FACES[0]:
        d2 = split_face(rng, d)
        if d2 is not None:
            return d2
    return d


def _rand_polyhedron(rng, small=False):
    r = rng.random()
    if rng.random() < (0.03 if small else 0.06):
        d = big_prism(rng)
        if d is not None:
            return d
    if small:
        if r < 0.5:
            return tetra(rng)
        if r < 0.8:
            return box(rng)
        return pyramid(rng)
    if r < 0.2:
        return tetra(rng)
    if r < 0.4:
        return box(rng)
    if r < 0.5:
        return axis_box(rng)
    if r < 0.62:
        return prism(rng)
    if r < 0.74:
        return pyramid(rng)
    if r < 0.82:
        return bipyramid(rng)
    return general_hull(rng)


def family_of(ph):
    """rough structural label of a polyhedron descriptor (for coverage reports)"""
    nv, nf = len(ph[1]), len(ph[2])
    sides = sorted(len(f) for f in ph[2])
    if nv == 4:
        return "tetrahedron"
    if nv == 8 and nf == 6 and sides == [4] * 6:
        return "hexahedron"
    if nf == nv and sides.count(3) == nf - 1:
        return "pyramid"
    if sides.count(4) == nf - 2 and nv == 2 * (nf - 2):
        return "prism"
    if all(s == 3 for s in sides):
        return "deltahedron"
    return "hull-%dv" % nv


def _axis_unit(rng):
    v = [F(0), F(0), F(0)]
    v[rng.randrange(3)] = F(rng.choice((1, -1)))
    return tuple(v)


def rand_flat(rng, kind):
    if kind in ("L", "H", "PL") and rng.random() < 0.07:
        # direction / normal of length exactly 1 along a coordinate axis (the only unit vectors on the lattice)
        return (kind, rpt(rng), _axis_unit(rng))
    if kind == "P":
        return ("P", rpt(rng))
    if kind == "L":
        return ("L", rpt(rng), mul(rdir(rng), rng.choice((F(1, 8), F(1, 4), F(1, 2), 1, 1, 1, 2))))
    if kind == "H":
        return ("H", rpt(rng), mul(rdir(rng), rng.choice((F(1, 8), F(1, 4), F(1, 2), 1, 1, 1, 2))))
    if kind == "S":
        p = rpt(rng)
        return ("S", p, add(p, mul(rdir(rng), rng.choice((F(1, 2), F(1), F(1), F(2))))))
    if kind == "PL":
        return ("PL", rpt(rng), rdir(rng))
    raise ValueError(kind)


def rand_obj(rng, kind, small=False):
    if kind == "PG":
        if rng.random() < 0.08:
            pg = regular_ish_polygon(rng, rng.choice((8, 9, 10, 12)))      # many-sided polygons (fast paths keyed on the vertex count)
            if pg is not None and len(pg[1]) >= 8:
                return pg
        return rand_polygon(rng) if rng.random() < 0.6 else regular_ish_polygon(rng, rng.randint(3, 8))
    if kind == "PH":
        return rand_polyhedron(rng, small)
    return rand_flat(rng, kind)


# --------------------------------------------------------------------------
# feature points and targeted (degenerate-position) objects

def feature_points(o):
    """exact dyadic points of o grouped by feature class"""
    k = o[0]
    out = {}
    if k == "P":
        out["vertex"] = [o[1]]
    elif k in ("L", "H", "S"):
        p, d, lo, hi = K.one_d(o)
        out["interior"] = [add(p, mul(d, t)) for t in (F(1, 2), F(1, 4), F(3, 4)) if lo <= t <= hi]
        if k == "L":
            out["interior"] += [p, add(p, d), add(p, mul(d, -1)), add(p, mul(d, 2))]
        if k == "H":
            out["vertex"] = [p]
            out["interior"] += [add(p, d), add(p, mul(d, 2))]
            out["carrier-outside"] = [add(p, mul(d, -1)), add(p, mul(d, F(-1, 2)))]
        if k == "S":
            out["vertex"] = [p, add(p, d)]
            out["carrier-outside"] = [add(p, mul(d, -1)), add(p, mul(d, 2)), add(p, mul(d, F(3, 2)))]
    elif k == "PL":
        u, v = _plane_basis(o[2])
        out["interior"] = [o[1], add(o[1], u), add(o[1], v), add(o[1], add(u, v)), sub(o[1], u)]
    elif k == "PG":
        vs = o[1]
        m = len(vs)
        out["vertex"] = list(vs)
        out["edge"] = [mul(add(vs[i], vs[(i + 1) % m]), F(1, 2)) for i in range(m)]
        inner = []
        for i in range(m):
            for j in range(i + 2, m):
                if (i, j) != (0, m - 1):
                    inner.append(mul(add(vs[i], vs[j]), F(1, 2)))
        if not inner:
            inner = [mul(add(mul(add(vs[0], vs[1]), F(1, 2)), vs[2]), F(1, 2))]
        out["interior"] = inner
        outside = []
        for i in range(m):
            outside.append(add(vs[i], sub(vs[i], vs[(i + 1) % m])))          # on an edge carrier, outside
            outside.append(add(vs[i], mul(sub(vs[i], inner[0]), F(1, 2))))   # in the plane, outside
        out["carrier-outside"] = outside
    elif k == "PH":
        vs, faces = o[1], o[2]
        out["vertex"] = list(vs)
        edges = []
        facepts = []
        outside = []
        for f in faces:
            m = len(f)
            for i in range(m):
                edges.append(mul(add(f[i], f[(i + 1) % m]), F(1, 2)))
            if m == 3:
                facepts.append(mul(add(mul(add(f[0], f[1]), F(1, 2)), f[2]), F(1, 2)))
            else:
                facepts.append(mul(add(f[0], f[2]), F(1, 2)))
            outside.append(add(f[0], sub(f[0], f[1])))                      # edge carrier, outside
            outside.append(add(f[0], sub(f[0], facepts[-1])))               # face plane, outside the face
        out["edge"] = list(dict.fromkeys(edges))
        out["face"] = facepts
        # interior: midpoints between face points of different faces
        inner = []
        for i in range(len(facepts)):
            for j in range(i + 1, len(facepts)):
                inner.append(mul(add(facepts[i], facepts[j]), F(1, 2)))
                if len(inner) >= 6:
                    break
            if len(inner) >= 6:
                break
        out["interior"] = inner
        out["carrier-outside"] = outside
    return out


def all_features(o):
    fp = feature_points(o)
    res = []
    for v in fp.values():
        res.extend(v)
    return res


def _plane_basis(n):
    cands = [cross(n, e) for e in (V(1, 0, 0), V(0, 1, 0), V(0, 0, 1))]
    cands = [c for c in cands if nz(c)]
    u = cands[0]
    for v in cands[1:]:
        if nz(cross(u, v)):
            return u, v
    raise ValueError


def targeted(rng, kind, other):
    """an object of `kind` built through feature points of `other`, so that exact
    incidences (through vertices, along edges, in face planes, touching, ending on
    the boundary, collinear/coplanar overlap) are frequent"""
    fp = all_features(other)
    for _ in range(60):
        if kind == "P":
            if rng.random() < 0.8:
                return ("P", rng.choice(fp))
            return ("P", add(rng.choice(fp), mul(rdir(rng, 1), rng.choice((F(1, 4), F(1, 2), F(1))))))
        if kind in ("L", "H", "S") and other[0] in ("PG", "PH") and rng.random() < 0.08:
            # in the plane of the polygon / of a face, on the line that touches it in ONE vertex only (parallel to the chord
            # between that vertex's neighbours): containing the vertex, ending in it, or stopping short of it
            f = other[1] if other[0] == "PG" else rng.choice(other[2])
            m = len(f)
            i = rng.randrange(m)
            v, dch = f[i], sub(f[(i + 1) % m], f[(i - 1) % m])
            ts = sorted(rng.sample([F(x, 2) for x in range(-4, 5)], 2))
            if kind == "L":
                o = ("L", add(v, mul(dch, ts[0])), mul(dch, rng.choice((1, -1, F(1, 2)))))
            elif kind == "H":
                o = ("H", add(v, mul(dch, ts[0])), mul(dch, rng.choice((1, -1))))
            else:
                o = ("S", add(v, mul(dch, ts[0])), add(v, mul(dch, ts[1])))
            if ok_coords(o):
                return o
            continue
        if kind in ("L", "H", "S"):
            a = rng.choice(fp)
            b = rng.choice(fp + [add(a, rdir(rng))] * 2)
            if a == b:
                continue
            d = sub(b, a)
            if kind == "L":
                o = ("L", add(a, mul(d, rng.choice((0, 0, 1, -1, F(1, 2))))), mul(d, rng.choice((1, 1, -1, 2, F(1, 2)))))
            elif kind == "H":
                t0 = rng.choice((0, 0, 0, F(1, 2), 1, -1, F(-1, 2), 2))
                o = ("H", add(a, mul(d, t0)), mul(d, rng.choice((1, -1, 2, F(1, 2)))))
            else:
                t0 = F(rng.randint(-2, 3), 2)
                t1 = F(rng.randint(-2, 4), 2)
                if t0 == t1:
                    continue
                o = ("S", add(a, mul(d, t0)), add(a, mul(d, t1)))
            if ok_coords(o):
                return o
            continue
        if kind == "PL":
            a, b, c = rng.choice(fp), rng.choice(fp + [rpt(rng)]), rng.choice(fp + [rpt(rng)] * 2)
            n = cross(sub(b, a), sub(c, a))
            if not nz(n):
                continue
            n = _reduce(n)
            return ("PL", a, n)
        if kind == "PG":
            a, b, c = rng.choice(fp), rng.choice(fp + [rpt(rng)]), rng.choice(fp + [rpt(rng)] * 2)
            n = cross(sub(b, a), sub(c, a))
            if not nz(n):
                continue
            pts = [a, b, c]
            for _ in range(rng.randint(0, 4)):
                s, t = F(rng.randint(-2, 3), 2), F(rng.randint(-2, 3), 2)
                pts.append(add(a, add(mul(sub(b, a), s), mul(sub(c, a), t))))
            # other feature points that happen to lie in this plane join in
            for q in fp:
                if dot(n, sub(q, a)) == 0 and rng.random() < 0.5:
                    pts.append(q)
            h = K.hull2d(pts, n)
            if 3 <= len(h) <= 8:
                o = ("PG", tuple(h))
                if ok_coords(o):
                    return o
            continue
        if kind == "PH":
            pts = [rng.choice(fp) for _ in range(rng.randint(1, 4))] + [rpt(rng, 3, (1, 2)) for _ in range(rng.randint(2, 4))]
            h = K.hull3d(pts)
            if h and ok_coords(h) and len(h[1]) <= 10:
                return h
    return rand_obj(rng, kind)


def _reduce(n):
    """scale an exact vector to small coprime integers (keeps direction)"""
    from math import gcd
    den = 1
    for c in n:
        den = den * F(c).denominator // gcd(den, F(c).denominator)
    ints = [int(c * den) for c in n]
    g = 0
    for i in ints:
        g = gcd(g, abs(i))
    return tuple(F(i // g) for i in ints)


# --------------------------------------------------------------------------
# scenario constructors for pairs

def collinear_pair(rng, ka, kb):
    """two 1-D objects on a common carrier covering all interval relations and
    both direction senses"""
    while True:
        p = rpt(rng, 3, (1, 2))
        d = rdir(rng, 2)
        ts = [F(rng.randint(-4, 4), 2) for _ in range(4)]

        def mk(kind, t0, t1):
            if kind == "L":
                return ("L", add(p, mul(d, t0)), mul(d, rng.choice((1, -1, 2, F(1, 2)))))
            if kind == "H":
                return ("H", add(p, mul(d, t0)), mul(d, rng.choice((1, -1, 2, -2, F(1, 2)))))
            if t0 == t1:
                t1 = t0 + 1
            return ("S", add(p, mul(d, t0)), add(p, mul(d, t1)))
        a = mk(ka, ts[0], ts[1])
        b = mk(kb, ts[2], ts[3])
        if ok_coords(a) and ok_coords(b):
            return a, b


def parallel_pair(rng, ka, kb):
    """1-D objects on distinct parallel carriers"""
    while True:
        a = rand_flat(rng, ka)
        p, d, lo, hi = K.one_d(a)
        off = rdir(rng, 2)
        if not nz(cross(off, d)):
            continue
        q = add(add(p, off), mul(d, F(rng.randint(-2, 2), 2)))
        dd = mul(d, rng.choice((1, -1, 2, F(1, 2))))
        if kb == "L":
            b = ("L", q, dd)
        elif kb == "H":
            b = ("H", q, dd)
        else:
            b = ("S", q, add(q, dd))
        if ok_coords(b):
            return a, b


def crossing_pair(rng, ka, kb):
    """coplanar non-parallel 1-D objects whose carriers cross at x, with x placed
    inside / at an end of / outside each"""
    while True:
        x = rpt(rng, 3, (1, 2))
        d1, d2 = rdir(rng, 2), rdir(rng, 2)
        if rng.random() < 0.25:
            # carriers in a common plane parallel to a coordinate axis: their projections onto one coordinate
            # plane are parallel, with a component ratio that is not a dyadic number (11:15, 13:7, ...)
            ax = rng.randrange(3)
            o1, o2 = [a for a in range(3) if a != ax]
            u, v = rng.choice(((F(11, 4), F(15, 4)), (F(13, 4), F(7, 4)), (F(5, 4), F(3, 4)), (F(3), F(7)), (F(9, 4), F(5, 2)), (F(7, 4), F(3, 2))))
            if rng.random() < 0.5:
                u, v = v, u
            d1 = [F(0)] * 3
            d2 = [F(0)] * 3
            k2 = rng.choice((F(1), F(-1), F(1, 2), F(2)))
            d1[o1], d1[o2], d1[ax] = u * rng.choice((1, -1)), v, F(rng.randint(-6, 6), 4)
            d2[o1], d2[o2], d2[ax] = d1[o1] * k2, d1[o2] * k2, F(rng.randint(-6, 6), 4)
            d1, d2 = tuple(d1), tuple(d2)
        if not nz(cross(d1, d2)):
            continue

        def mk(kind, d):
            t = rng.choice((F(-1), F(-1, 2), F(0), F(0), F(1, 2), F(1), F(3, 2), F(2)))
            if kind == "L":
                return ("L", sub(x, mul(d, t)), d)
            if kind == "H":
                return ("H", sub(x, mul(d, t)), d)
            s = sub(x, mul(d, t))
            return ("S", s, add(s, d))
        a, b = mk(ka, d1), mk(kb, d2)
        if ok_coords(a) and ok_coords(b):
            return a, b


def flat_pair(rng, ka, kb):
    if ka == "PL" and kb == "PL" and rng.random() < 0.06:
        pp = slab_plane_pair(rng)
        if pp is not None:
            return pp, "parallel-planes/offsets-minus1-and-minus2"
    if ka in ("P", "L", "H", "S") and kb in ("L", "H", "S") and rng.random() < 0.05:
        x = slab_direction_pair(rng, ka, kb)
        if x is not None:
            return x, "hash-alike-directions"
    return _flat_pair(rng, ka, kb)


def _flat_pair(rng, ka, kb):
    """a pair of flat objects with a scenario label (a-posteriori classification
    happens in the property module)"""
    r = rng.random()
    oned = ("L", "H", "S")
    if ka in oned and kb in oned:
        if r < 0.35:
            return collinear_pair(rng, ka, kb), "collinear"
        if r < 0.5:
            return parallel_pair(rng, ka, kb), "parallel"
        if r < 0.8:
            return crossing_pair(rng, ka, kb), "crossing"
        return (rand_flat(rng, ka), rand_flat(rng, kb)), "random"
    if r < 0.7:
        if rng.random() < 0.5:
            a = rand_flat(rng, ka)
            b = targeted(rng, kb, a)
        else:
            b = rand_flat(rng, kb)
            a = targeted(rng, ka, b)
        # parallel planes / line parallel to plane are only hit on purpose
        if ka == "PL" and kb == "PL" and rng.random() < 0.3:
            b = ("PL", add(a[1], mul(rdir(rng, 1), rng.choice((0, F(1, 2), 1)))), mul(a[2], rng.choice((1, -1, 2))))
        if "PL" in (ka, kb) and (ka in oned or kb in oned) and rng.random() < 0.3:
            pl, o = (a, b) if ka == "PL" else (b, a)
            u, v = _plane_basis(pl[2])
            dd = add(mul(u, rng.randint(-2, 2)), mul(v, rng.randint(-2, 2)))
            if nz(dd):
                base = add(pl[1], mul(_reduce(pl[2]), rng.choice((0, 0, F(1, 2), 1))))
                base = add(base, mul(u, rng.randint(-1, 1)))
                k1 = o[0]
                o2 = (k1, base, dd) if k1 in ("L", "H") else ("S", base, add(base, dd))
                if ok_coords(o2):
                    if ka == "PL":
                        b = o2
                    else:
                        a = o2
        return (a, b), "targeted"
    return (rand_flat(rng, ka), rand_flat(rng, kb)), "random"


def flat_vs_body(rng, kf, kb, small=False):
    if rng.random() < 0.04:
        x = slab_flat_vs_body(rng, kf, kb)
        if x is not None:
            return x, "minus1-minus2-slab"
    body = rand_obj(rng, kb, small)
    r = rng.random()
    if r < 0.75:
        f = targeted(rng, kf, body)
        return (f, body), "targeted"
    return (rand_flat(rng, kf), body), "random"


def edge_cross_contact(rng, a):
    """a tetrahedron that touches the polyhedron a in exactly one point which is a vertex of neither body:
    one of its edges crosses an edge of a in the interior of both, the rest lies beyond a supporting plane"""
    edges = {}
    c = K.centroid(a[1])
    for f in a[2]:
        n = _reduce(K.polygon_normal(f))
        if dot(n, sub(c, f[0])) > 0:
            n = mul(n, -1)
        m = len(f)
        for i in range(m):
            edges.setdefault(frozenset((f[i], f[(i + 1) % m])), []).append(n)
    for _ in range(20):
        e, ns = rng.choice(list(edges.items()))
        if len(ns) != 2:
            continue
        p, q = tuple(e)
        ed = sub(q, p)
        w = add(mul(ns[0], rng.randint(1, 2)), mul(ns[1], rng.randint(1, 2)))        # strictly inside the normal cone of the edge
        d2 = cross(ed, w)
        if not nz(d2):
            continue
        d2 = _reduce(d2)
        w = _reduce(w)
        mid = add(p, mul(ed, rng.choice((F(1, 2), F(1, 4), F(3, 4)))))
        s1, s2 = rng.choice((F(1, 2), F(1, 4), F(1))), rng.choice((F(1, 2), F(1, 4), F(1)))
        top = add(mid, mul(w, s1))
        er = _reduce(ed)
        pts = [sub(mid, mul(d2, s2)), add(mid, mul(d2, s2)), add(top, mul(er, s2)), sub(top, mul(er, s2))]
        b = K.hull3d(pts)
        if b is not None and ok_coords(b, 64, 40):
            return b
    return None


def bounding_sphere_contact(rng, a, kb):
    """a polygon / tetrahedron that touches the polyhedron a only in a's vertex V farthest from its centroid,
    placed so that V is also ITS vertex farthest from its own centroid and both centroids are collinear with V
    (the bounding spheres about the vertex centroids are exactly tangent)"""
    if len(a[1]) not in (4, 8):
        return None                       # keeps the centroid dyadic
    c = K.centroid(a[1])
    V_ = max(a[1], key=lambda v: dot(sub(v, c), sub(v, c)))
    w = sub(V_, c)
    far = [v for v in a[1] if dot(sub(v, c), sub(v, c)) == dot(w, w)]
    cands = [cross(w, e) for e in (V(1, 0, 0), V(0, 1, 0), V(0, 0, 1))]
    cands = [x for x in cands if nz(x)]
    if not cands:
        return None
    u = _reduce(cands[0])
    u2 = cross(w, u)
    s = rng.choice((F(1, 2), F(1), F(1, 4)))
    uu = mul(u, F(1, 4))
    # vertices: V, V + 2s w + uu, V + 2s w - uu (centroid V + (4/3) s w; V is the farthest when |uu| is small)
    pts = [V_, add(V_, add(mul(w, 2 * s), uu)), add(V_, sub(mul(w, 2 * s), uu))]
    if kb == "PG":
        b = ("PG", tuple(pts))
        n = K.polygon_normal(b[1])
        b = ("PG", tuple(K.hull2d(pts, n)))
    else:
        if not nz(u2):
            return None
        # tetrahedron with centroid on the ray: V, V + (8/3) s w +- ..., kept simple: four points symmetric about the ray
        q = _reduce(u2)
        pts = [V_, add(V_, add(mul(w, 2 * s), uu)), add(V_, sub(mul(w, 2 * s), uu)), add(V_, add(mul(w, 2 * s), mul(q, F(1, 4)))),
               add(V_, sub(mul(w, 2 * s), mul(q, F(1, 4))))]
        b = K.hull3d(pts)
    if b is None or not ok_coords(b, 64, 40):
        return None
    return b


def split_face(rng, ph):
    """the same body with one face (>= 4 vertices) given as two coplanar polygons"""
    cands = [i for i, f in enumerate(ph[2]) if len(f) >= 4]
    if not cands:
        return None
    i = rng.choice(cands)
    f = list(ph[2][i])
    m = len(f)
    j = rng.randrange(2, m - 1)
    f1, f2 = tuple(f[:j + 1]), tuple([f[0]] + f[j:])
    faces = list(ph[2][:i]) + [f1, f2] + list(ph[2][i + 1:])
    return ("PH", ph[1], tuple(faces))


def int_box(rng, lo=-3, hi=2):
    """axis-aligned box with small integer corners (coordinates -1 / -2 included on purpose:
    CPython hashes -1.0 and -2.0 alike, the one small-number hash collision there is)"""
    c = []
    if rng.random() < 0.7:
        # unit-ish cross-section in two axes, the third axis in the negative range
        ax = rng.randrange(3)
        for i in range(3):
            if i == ax:
                x0 = rng.randint(-3, -1)
                x1 = rng.randint(x0 + 1, 0)
            elif rng.random() < 0.6:
                x0, x1 = 0, 1
            else:
                x0 = rng.randint(-2, 0)
                x1 = rng.randint(x0 + 1, 1)
            c.append((F(x0), F(x1)))
    else:
        for _ in range(3):
            x0 = rng.randint(lo, hi - 1)
            c.append((F(x0), F(rng.randint(x0 + 1, min(hi, x0 + 3)))))
    pts = [(c[0][i], c[1][j], c[2][k]) for i in (0, 1) for j in (0, 1) for k in (0, 1)]
    return K.hull3d(pts)


def int_rect(rng, lo=-3, hi=2):
    ax = rng.randrange(3)
    box = int_box(rng, lo, hi)
    f = [f for f in box[2] if len({v[ax] for v in f}) == 1]
    return ("PG", rng.choice(f))


def body_pair(rng, ka, kb, small=True):
    """two convex bodies (PG/PH) in a labelled relative position"""
    r = rng.random()
    if ka == "PH" and kb == "PH" and rng.random() < 0.04:
        return slab_box_pair(rng), "common-part-is-the-minus1-minus2-slab-cube"
    if ka == "PH" and kb == "PH" and rng.random() < 0.08:
        # a body inscribed in another: the hull of a few boundary points (vertices, edge points, face points) of a, so that
        # it lies inside a and touches a's boundary in vertices / along edges / in face parts only
        a = rand_obj(rng, "PH", small)
        fp = feature_points(a)
        pool = []
        for cls, pts in fp.items():
            if cls != "interior":
                pool += list(pts)
        pool = list(dict.fromkeys(pool))
        if len(pool) >= 5:
            for _ in range(6):
                b = K.hull3d(rng.sample(pool, rng.randint(4, min(6, len(pool)))))
                if b is not None and ok_coords(b, 64, 40):
                    return ((a, b) if rng.random() < 0.7 else (b, a)), "inscribed"
    if rng.random() < 0.12:
        mk = lambda k: int_box(rng) if k == "PH" else int_rect(rng)
        return (mk(ka), mk(kb)), "small-integer-boxes"
    a = rand_obj(rng, ka, small)
    if ka == "PH" and rng.random() < 0.06:
        b = bounding_sphere_contact(rng, a, kb)
        if b is not None:
            return (a, b), "bounding-spheres-tangent-at-common-vertex"
    if ka == "PH" and kb == "PH" and rng.random() < 0.08:
        b = edge_cross_contact(rng, a)
        if b is not None:
            return ((a, b) if rng.random() < 0.5 else (b, a)), "edge-crossing-point-contact"
    if r < 0.1 and ka == "PH" and kb == "PH":
        # strictly nested, off-centre: a shrunken copy about an interior point (no surface contact)
        inner = [q for q in feature_points(a).get("interior", [])]
        if inner:
            b = _scale_about(a, rng.choice(inner), rng.choice((F(1, 4), F(1, 2), F(1, 8))))
            if ok_coords(b, 64):
                return ((a, b) if rng.random() < 0.7 else (b, a)), "strictly-nested"
    if r < 0.3:
        return (a, targeted(rng, kb, a)), "shared-features"
    if r < 0.55 and ka == kb:
        # translated copy by a lattice / half-edge / edge vector
        vs = a[1]
        choices = [mul(rdir(rng, 1), rng.choice((F(1, 2), F(1), F(1, 4))))]
        i, j = rng.sample(range(len(vs)), 2)
        choices.append(sub(vs[j], vs[i]))
        choices.append(mul(sub(vs[j], vs[i]), F(1, 2)))
        t = rng.choice(choices)
        b = _translate(a, t)
        if ok_coords(b):
            return (a, b), "translated-copy"
    if r < 0.65:
        # nested: scaled copy about a vertex or dyadic interior point
        c = rng.choice(all_features(a))
        s = rng.choice((F(1, 2), F(1, 2), F(1, 4), F(2)))
        b = _scale_about(a, c, s)
        if kb == ka and ok_coords(b):
            return (a, b), "scaled-copy"
    if r < 0.8 and ka == "PG" and kb == "PG":
        # coplanar polygons
        n = K.polygon_normal(a[1])
        u = sub(a[1][1], a[1][0])
        v = sub(a[1][2], a[1][0])
        base = rng.choice(all_features(a))
        pts = [add(base, add(mul(u, F(rng.randint(-2, 3), 2)), mul(v, F(rng.randint(-2, 3), 2)))) for _ in range(rng.randint(3, 6))]
        pts += [q for q in all_features(a) if rng.random() < 0.3]
        h = K.hull2d(pts, n)
        if 3 <= len(h) <= 8:
            b = ("PG", tuple(h))
            if ok_coords(b):
                return (a, b), "coplanar"
    if r < 0.8 and "PH" in (ka, kb):
        # body sharing (part of) a face with a polyhedron
        ph = a if ka == "PH" else None
        if ph is not None:
            f = rng.choice(ph[2])
            n = K.polygon_normal(f)
            c = K.centroid(ph[1])
            if dot(n, sub(c, f[0])) > 0:
                n = mul(n, -1)
            if rng.random() < 0.5:
                base = list(f)
            else:
                m = len(f)
                base = [f[0], mul(add(f[0], f[1]), F(1, 2)), mul(add(f[0], f[m - 1]), F(1, 2))] + ([f[1]] if rng.random() < 0.5 else [])
            if kb == "PG":
                h = K.hull2d(base, n)
                if len(h) >= 3:
                    b = ("PG", tuple(h))
                    if ok_coords(b):
                        return (a, b), "on-face"
            else:
                inward = rng.random() < 0.5       # apex outside: the bodies touch in (part of) the face; inside: they overlap and
                                                   # the common face part belongs to the boundary of both
                apex = add(f[0], mul(_reduce(n), rng.choice((F(1, 2), F(1), F(1, 4))) * (-1 if inward else 1)))
                apex = add(apex, mul(sub(f[1], f[0]), F(1, 2)))
                b = K.hull3d(base + [apex])
                if b and ok_coords(b):
                    return (a, b), "on-face/overlapping" if inward else "on-face"
    return (a, rand_obj(rng, kb, small)), "random"


def _translate(d, t):
    from .desc import translate
    return translate(d, t)


def _scale_about(d, c, s):
    def pt(p):
        return add(c, mul(sub(p, c), s))
    if d[0] == "PG":
        return ("PG", tuple(pt(v) for v in d[1]))
    return ("PH", tuple(pt(v) for v in d[1]), tuple(tuple(pt(v) for v in f) for f in d[2]))


def origin_mirror(d):
    """point reflection x -> -x of a descriptor (parallel carrier / plane on the other side of the origin)"""
    from .desc import xform
    return xform(d, ((0, -1), (1, -1), (2, -1)), (F(0), F(0), F(0)), F(1))


def carrier_of(d, kind):
    """a Line / Plane through (or containing) the object d, as a descriptor of `kind`, or None"""
    k = d[0]
    if kind == "L":
        if k in ("L", "H"):
            return ("L", d[1], d[2])
        if k == "S":
            return ("L", d[1], sub(d[2], d[1]))
        if k == "PG":
            return ("L", d[1][0], sub(d[1][1], d[1][0]))
        if k == "PH":
            return ("L", d[2][0][0], sub(d[2][0][1], d[2][0][0]))
    if kind == "PL":
        if k == "PL":
            return d
        if k == "PG":
            return ("PL", d[1][0], _reduce(K.polygon_normal(d[1])))
        if k == "PH":
            return ("PL", d[2][0][0], _reduce(K.polygon_normal(d[2][0])))
    return None


def gen_pair(rng, ka, kb, small=True):
    """any ordered kind pair -> ((a, b), scenario label)"""
    if rng.random() < 0.04 and (ka in ("L", "PL") or kb in ("L", "PL")):
        # a Line / Plane that is the point reflection through the origin of the partner's carrier:
        # parallel to it, at the mirrored offset (equal |offset|, equal moment up to sign)
        if kb in ("L", "PL"):
            a = rand_obj(rng, ka, small)
            c = carrier_of(a, kb)
            if c is not None:
                b = origin_mirror(c)
                if ok_coords(b):
                    return (a, b), "origin-mirrored-carrier"
        else:
            b = rand_obj(rng, kb, small)
            c = carrier_of(b, ka)
            if c is not None:
                a = origin_mirror(c)
                if ok_coords(a):
                    return (a, b), "origin-mirrored-carrier"
    if ka in FLAT and kb in FLAT:
        return flat_pair(rng, ka, kb)
    if ka in FLAT:
        return flat_vs_body(rng, ka, kb, small)
    if kb in FLAT:
        (f, body), lab = flat_vs_body(rng, kb, ka, small)
        return (body, f), lab
    if ka == "PH" and kb == "PG":
        (b, a), lab = body_pair(rng, kb, ka, small)
        if rng.random() < 0.5:
            (a, b), lab = body_pair(rng, ka, kb, small)
        return (a, b), lab
    return body_pair(rng, ka, kb, small)


# --------------------------------------------------------------------------
# the "-1 / -2 slab" family.  CPython hashes -1 and -2 (ints and floats) alike; Point / Vector / Plane / polygon hashes
# are tuples of rounded numbers, so two *different* objects collide when they agree everywhere except that one has -1
# where the other has -2, all other coordinates of the points concerned being 0 or 1 (so that the coordinate products in
# the hash collide too).  Anything keyed by hash() instead of by == goes wrong exactly there.  The helpers below put
# vertices, hit points, faces and results of valid objects into that position on purpose.

def slab_pt(c, t, u, w):
    """point with coordinate t on axis c and (u, w) on the two other axes (cyclic order)"""
    p = [None, None, None]
    p[c] = F(t)
    p[(c + 1) % 3] = F(u)
    p[(c + 2) % 3] = F(w)
    return tuple(p)


def slab_body(rng, c=None, lo=-2, hi=-1, wide=False):
    """(axis, body): the unit cube or a prism over a {0,1}^2 polygon between the planes x_c = lo and x_c = hi"""
    c = rng.randrange(3) if c is None else c
    base = rng.choice(([(0, 0), (1, 0), (1, 1), (0, 1)], [(0, 0), (1, 0), (1, 1), (0, 1)], [(0, 0), (1, 0), (0, 1)],
                       [(1, 0), (1, 1), (0, 1)], [(0, 0), (1, 1), (0, 1)]))
    if wide:
        # a wider cross-section: the points (u, w) in {0,1}^2 are interior or boundary points of it
        u0, u1, w0, w1 = rng.choice((-1, 0)), rng.choice((1, 2)), rng.choice((-1, 0)), rng.choice((1, 2))
        base = [(u0, w0), (u1, w0), (u1, w1), (u0, w1)]
    pts = [slab_pt(c, t, u, w) for t in (lo, hi) for (u, w) in base]
    return c, K.hull3d(pts)


def slab_polygon(rng, c=None):
    """(axis, w, polygon): a quadrilateral in the plane x_(c+2) = w with one edge on the line x_c = -2 and one on
    x_c = -1, both covering u in [0, 1]"""
    c = rng.randrange(3) if c is None else c
    w = rng.choice((0, 1))
    a0, a1 = rng.choice((-2, -1, 0)), rng.choice((-2, -1, 0))
    b0, b1 = rng.choice((1, 2)), rng.choice((1, 2))
    vs = [slab_pt(c, -2, a0, w), slab_pt(c, -1, a1, w), slab_pt(c, -1, b1, w), slab_pt(c, -2, b0, w)]
    return c, w, ("PG", tuple(vs))


def slab_flat_vs_body(rng, kf, kb):
    """a flat object and a polygon / polyhedron whose common part has its ends (or vertices) at x_c = -2 and x_c = -1
    with the other coordinates in {0, 1}"""
    if kb == "PH":
        c, body = slab_body(rng, wide=rng.random() < 0.6)
        u, w = rng.choice((0, 1)), rng.choice((0, 1))
        if rng.random() < 0.3:
            u = F(1, 2) if rng.random() < 0.5 else u
    else:
        c, w, body = slab_polygon(rng)
        u = rng.choice((0, 1))
    p, q = slab_pt(c, -2, u, w), slab_pt(c, -1, u, w)
    e = sub(q, p)
    if body is None:
        return None
    if kf == "P":
        return ("P", rng.choice((p, q))), body
    if kf == "L":
        return ("L", add(p, mul(e, rng.randint(-2, 3))), mul(e, rng.choice((1, -1, 2)))), body
    if kf == "H":
        s = rng.choice((-1, 1))
        start = sub(p, mul(e, rng.randint(0, 2))) if s == 1 else add(q, mul(e, rng.randint(0, 2)))
        return ("H", start, mul(e, s)), body
    if kf == "S":
        return ("S", sub(p, mul(e, rng.randint(0, 1))), add(q, mul(e, rng.randint(0, 1)))), body
    if kf == "PL":
        if kb == "PH" and rng.random() < 0.5:
            n = [F(0)] * 3
            n[(c + 1) % 3] = F(1)
            return ("PL", slab_pt(c, 0, u if u in (0, 1) else 0, 0), tuple(n)), body       # cuts along the axis: section through (-2,u,.) and (-1,u,.)
        n = [F(0)] * 3
        n[(c + 1) % 3] = F(1)
        return ("PL", slab_pt(c, 0, u, 0), tuple(n)), body
    return None


def slab_box_pair(rng):
    """two axis-aligned integer boxes whose common part is exactly the unit cube between x_c = -2 and x_c = -1 over
    [0,1]^2 (a result with two faces that hash alike)"""
    c = rng.randrange(3)
    rngs = {c: (-2, -1), (c + 1) % 3: (0, 1), (c + 2) % 3: (0, 1)}
    A, B = [None] * 3, [None] * 3
    for ax in range(3):
        lo, hi = rngs[ax]
        ea, eb = rng.choice(((0, rng.randint(0, 2)), (rng.randint(0, 2), 0)))
        fa, fb = rng.choice(((0, rng.randint(0, 2)), (rng.randint(0, 2), 0)))
        A[ax] = (F(lo - ea), F(hi + fa))
        B[ax] = (F(lo - eb), F(hi + fb))
    mk = lambda R: K.hull3d([(R[0][i], R[1][j], R[2][k]) for i in (0, 1) for j in (0, 1) for k in (0, 1)])
    return mk(A), mk(B)


def slab_twins(rng, kind):
    """two different valid objects of one kind that agree everywhere except for one coordinate -1 against -2"""
    c = rng.randrange(3)
    if kind == "PG":
        w = rng.choice((0, 1))
        u = rng.choice((0, 1))
        far = rng.randint(2, 4)
        rest = [slab_pt(c, far, u - 1, w), slab_pt(c, far, u + 1, w)]
        if rng.random() < 0.5:
            rest = [slab_pt(c, far, u - 1, w), slab_pt(c, far + 1, u, w), slab_pt(c, far, u + 1, w)]
        return tuple(("PG", tuple([slab_pt(c, t, u, w)] + rest)) for t in (-1, -2))
    if kind == "PH":
        far = rng.randint(1, 3)
        out = []
        for t in (-1, -2):
            out.append(K.hull3d([slab_pt(c, x, u, w) for x in (t, far) for u in (0, 1) for w in (0, 1)]))
        return tuple(out)
    if kind == "S":
        u, w = rng.choice((0, 1)), rng.choice((0, 1))
        q = slab_pt(c, rng.randint(1, 3), rng.randint(-2, 2), rng.randint(-2, 2))
        return tuple(("S", slab_pt(c, t, u, w), q) for t in (-1, -2))
    raise ValueError(kind)


def slab_plane_pair(rng):
    """two parallel planes whose Hesse offsets (w.r.t. the normal with positive leading component) are exactly -1 and -2"""
    n, ln = rng.choice((((1, 0, 0), 1), ((0, 1, 0), 1), ((0, 0, 1), 1), ((3, 4, 0), 5), ((0, 3, 4), 5), ((4, 0, 3), 5), ((1, 2, 2), 3), ((2, 1, 2), 3), ((2, 3, 6), 7)))
    n = tuple(F(c) for c in n)
    out = []
    for off in (-1, -2):
        for _ in range(200):
            p = tuple(F(rng.randint(-12, 12), rng.choice((1, 2, 4))) for _ in range(3))
            if dot(n, p) == off * ln:
                out.append(("PL", p, mul(n, rng.choice((1, 2, F(1, 2))))))
                break
        else:
            return None
    if rng.random() < 0.5:
        out.reverse()
    return tuple(out)


def cyclic_polygon(rng):
    """a non-regular polygon with 6 or 8 vertices that all lie on one circle about their own vertex centroid (a centrally
    symmetric subset of the lattice points of a circle), in an axis plane, possibly turned by the (3,4,5) rotation"""
    R2, pts = rng.choice(((25, [(5, 0), (3, 4), (4, 3), (0, 5), (-3, 4), (-4, 3)]), (65, [(8, 1), (7, 4), (4, 7), (1, 8), (-1, 8), (-4, 7), (-7, 4), (-8, 1)])))
    m = rng.choice((3, 3, 4)) if len(pts) >= 4 else 3
    half = sorted(rng.sample(pts, m))
    ring = half + [(-a, -b) for a, b in half]
    sc = rng.choice((F(1, 4), F(1, 2), F(5, 4) if R2 == 25 else F(1, 4)))
    rot = rng.random() < 0.5 and sc == F(5, 4)
    c = rng.randrange(3)
    o = rpt(rng, 2, (1, 2))
    out = []
    for a, b in ring:
        a, b = F(a) * sc, F(b) * sc
        if rot:
            a, b = (3 * a - 4 * b) / 5, (4 * a + 3 * b) / 5
        q = [F(0)] * 3
        q[(c + 1) % 3], q[(c + 2) % 3] = a, b
        out.append(add(o, tuple(q)))
    # order around the circle
    import math as _m
    ctr = o
    key = lambda q: _m.atan2(float(q[(c + 2) % 3] - ctr[(c + 2) % 3]), float(q[(c + 1) % 3] - ctr[(c + 1) % 3]))
    out.sort(key=key)
    d = ("PG", tuple(out))
    return d if ok_coords(d, 8, 16) else None


def slab_direction_pair(rng, ka, kb):
    """two 1-D objects through one point whose direction vectors differ only in a coordinate -1 against -2 (others in {0,1}):
    NOT parallel, but the two Vectors hash alike in CPython; for ka == "P": the point at offset d2 from the support of a line
    with direction d1 (not on it)"""
    c = rng.randrange(3)
    u, w = rng.choice(((0, 1), (1, 0), (1, 1), (0, 0)))
    d1, d2 = slab_pt(c, -1, u, w), slab_pt(c, -2, u, w)
    if rng.random() < 0.3:
        d1, d2 = slab_pt(c, -1, -2, w), slab_pt(c, -2, -1, w)
    if rng.random() < 0.5:
        d1, d2 = d2, d1
    o = rpt(rng, 3, (1, 2))

    def mk(kind, d):
        if kind == "S":
            return ("S", o, add(o, d)) if rng.random() < 0.5 else ("S", sub(o, d), add(o, d))
        return (kind, o, d)
    b = mk(kb, d1)
    a = ("P", add(o, d2)) if ka == "P" else mk(ka, d2)
    return (a, b) if ok_coords(a) and ok_coords(b) else None
