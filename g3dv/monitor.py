"""Runtime monitors: call-boundary helper, recursive-intersection recorder,
hash-boundary observer, invariant hooks, purity snapshots, exception
classifier, sys.monitoring trace, get_eps spies."""
import math
import os
import sys
from collections import Counter

from . import kernel as K
from .lib import load, module, REPO


class State:
    installed = False
    depth = 0                  # nesting depth of library intersection() calls
    hash_flag = False          # a hashed quantity was near a rounding boundary in this case
    hash_evals = 0
    hash_flags_total = 0
    inter_cells = Counter()    # (ka, kb, result kind / exc, inner?) -> n
    inner_hook = None          # callable(a, b, result, exc) for inner shadow checks
    ctor_counts = Counter()    # constructions / moves observed by the hooks
    inv_internal = Counter()   # invariant problems seen on library-internal objects (diagnostic)
    inv_checked = 0
    inv_skipped = 0
    funcs = set()              # qualified names of library functions entered
    lines = set()              # (file, line) of library statements executed
    raises = Counter()         # (qualname, line, exc type) raise sites reached
    eps_sites = Counter()      # (module, function, line) -> reads of get_eps / get_sig_figures
    purity_checks = 0
    boundary_calls = Counter()


ST = State()
_NO_INV = bool(os.environ.get("G3DV_NO_INVARIANTS"))   # diagnostics only: lets the self-test see what the query probes catch alone
_TYPES = {}


def kind(o):
    if o is None:
        return "None"
    return _TYPES.get(type(o)) or _kind_slow(o)


def _kind_slow(o):
    G = load()
    for cls, name in ((G.Point, "P"), (G.Line, "L"), (G.HalfLine, "H"), (G.Segment, "S"),
                      (G.Plane, "PL"), (G.ConvexPolygon, "PG"), (G.ConvexPolyhedron, "PH"),
                      (G.Vector, "VEC"), (G.Pyramid, "PY")):
        if isinstance(o, cls):
            return name
    return type(o).__name__


def new_case():
    ST.hash_flag = False
    ST.depth = 0


# --------------------------------------------------------------------------
# hash-boundary observer

def _near_boundary(v, sig):
    try:
        t = abs(float(v)) * (10.0 ** sig)
    except (TypeError, OverflowError):
        return False
    if t > 1e15:
        return False
    f = t - math.floor(t)
    return abs(f - 0.5) < 0.005


def _install_hash_observers(G):
    get_sig = G.get_sig_figures
    P, Vc, L, PLn = G.Point, G.Vector, G.Line, G.Plane
    oP, oV, oL, oPL = P.__hash__, Vc.__hash__, L.__hash__, PLn.__hash__

    def hP(self):
        ST.hash_evals += 1
        s = get_sig()
        if _near_boundary(self.x, s) or _near_boundary(self.y, s) or _near_boundary(self.z, s):
            ST.hash_flag = True
            ST.hash_flags_total += 1
        return oP(self)

    def hV(self):
        ST.hash_evals += 1
        s = get_sig()
        v = self._v
        if _near_boundary(v[0], s) or _near_boundary(v[1], s) or _near_boundary(v[2], s):
            ST.hash_flag = True
            ST.hash_flags_total += 1
        return oV(self)

    def hL(self):
        ST.hash_evals += 1
        s = get_sig()
        try:
            dv, sv = self.dv, self.sv
            n = math.sqrt(float(dv * dv)) or 1.0
            q = [dv[0], dv[1], dv[0] * sv[1] - dv[1] * sv[0]]
            # the raw and the normalised direction: either may be what is rounded
            q += [dv[0] / n, dv[1] / n, (dv[0] * sv[1] - dv[1] * sv[0]) / n]
            for x in q:
                if _near_boundary(x, s):
                    ST.hash_flag = True
                    ST.hash_flags_total += 1
                    break
        except Exception:
            pass
        return oL(self)

    def hPL(self):
        ST.hash_evals += 1
        s = get_sig()
        try:
            n = self.n
            for x in (n[0], n[1], n[2], n * self.p.pv()):
                if _near_boundary(x, s):
                    ST.hash_flag = True
                    ST.hash_flags_total += 1
                    break
        except Exception:
            pass
        return oPL(self)
    P.__hash__, Vc.__hash__, L.__hash__, PLn.__hash__ = hP, hV, hL, hPL


# --------------------------------------------------------------------------
# recursive intersection recorder

def _install_intersection_recorder(G):
    mod = module("calc.intersection")
    orig = mod.intersection

    def intersection(a, b):
        d = ST.depth
        ST.depth = d + 1
        try:
            r = orig(a, b)
        except BaseException as e:
            ST.depth = d
            ST.inter_cells[(kind(a), kind(b), "exc:" + type(e).__name__, d > 0)] += 1
            if ST.inner_hook is not None and d > 0:
                ST.inner_hook(a, b, None, e)
            raise
        ST.depth = d
        ST.inter_cells[(kind(a), kind(b), kind(r), d > 0)] += 1
        if ST.inner_hook is not None and d > 0:
            ST.inner_hook(a, b, r, None)
        return r
    intersection.__wrapped__ = orig
    intersection.__doc__ = orig.__doc__
    mod.intersection = intersection
    for name in ("calc.distance", "calc"):
        m = module(name)
        if getattr(m, "intersection", None) is orig:
            m.intersection = intersection
    if getattr(G, "intersection", None) is orig:
        G.intersection = intersection


# --------------------------------------------------------------------------
# constructor / move hooks (library-internal objects: diagnostics + counters)

_INTERNAL_RATE = float(os.environ.get("G3DV_INTERNAL_INV", "0.02"))
_internal_tick = [0]


def _internal_check(obj, where):
    """sampled invariant evaluation on objects the library builds internally
    (diagnostic only: counted and reported, never a verdict)"""
    if _INTERNAL_RATE <= 0:
        return
    _internal_tick[0] += 1
    if _INTERNAL_RATE < 1 and (_internal_tick[0] * _INTERNAL_RATE) % 1.0 >= _INTERNAL_RATE:
        return
    ST.inv_internal["evaluated"] += 1
    try:
        bad = invariants(obj, deep=False)
    except Exception:
        return
    ST.inv_checked -= 1
    for b in bad[:1]:
        ST.inv_internal["%s: %s" % (where, b.split("(")[0].strip())] += 1


def _install_ctor_hooks(G):
    def wrap_init(cls, name):
        orig = cls.__init__

        def __init__(self, *a, **kw):
            orig(self, *a, **kw)
            ST.ctor_counts[name] += 1
            _internal_check(self, name)
        __init__.__wrapped__ = orig
        cls.__init__ = __init__

    def wrap_move(cls, name):
        orig = cls.move

        def move(self, v):
            r = orig(self, v)
            ST.ctor_counts[name + ".move"] += 1
            _internal_check(self, name + ".move(receiver)")
            return r
        move.__wrapped__ = orig
        cls.move = move
    for cls, name in ((G.Line, "Line"), (G.Plane, "Plane"), (G.Segment, "Segment"),
                      (G.HalfLine, "HalfLine"), (G.ConvexPolygon, "ConvexPolygon"),
                      (G.ConvexPolyhedron, "ConvexPolyhedron"), (G.Pyramid, "Pyramid")):
        wrap_init(cls, name)
        if hasattr(cls, "move"):
            wrap_move(cls, name)


# --------------------------------------------------------------------------
# sys.monitoring trace

_TOOL = 4
_LIBDIR = os.path.join(REPO, "Geometry3D") + os.sep


def _install_trace(lines=False):
    mon = getattr(sys, "monitoring", None)
    if mon is None:
        return False
    try:
        mon.use_tool_id(_TOOL, "g3dv")
    except ValueError:
        return False
    E = mon.events

    def on_start(code, offset):
        if code.co_filename.startswith(_LIBDIR):
            ST.funcs.add(code.co_filename[len(_LIBDIR):-3].replace(os.sep, ".") + ":" + code.co_qualname)
        return mon.DISABLE

    def on_line(code, line):
        if code.co_filename.startswith(_LIBDIR):
            ST.lines.add((code.co_filename[len(_LIBDIR):], line))
        return mon.DISABLE

    def on_raise(code, offset, exc):
        if code.co_filename.startswith(_LIBDIR):
            ST.raises[(code.co_qualname, type(exc).__name__)] += 1
    mon.register_callback(_TOOL, E.PY_START, on_start)
    mon.register_callback(_TOOL, E.RAISE, on_raise)
    ev = E.PY_START | E.RAISE
    if lines:
        mon.register_callback(_TOOL, E.LINE, on_line)
        ev |= E.LINE
    mon.set_events(_TOOL, ev)
    return True


# --------------------------------------------------------------------------
# get_eps / get_sig_figures spies (C19)

def install_eps_spies():
    G = load()
    const = module("utils.constant")
    real_eps, real_sig = const.get_eps, const.get_sig_figures

    def mk(real, label):
        def spy():
            f = sys._getframe(1)
            ST.eps_sites[(label, f.f_code.co_qualname, f.f_lineno)] += 1
            return real()
        return spy
    n = 0
    for name, m in list(sys.modules.items()):
        if not name.startswith("Geometry3D") or m is None or m is const:
            continue
        if getattr(m, "get_eps", None) is real_eps:
            m.get_eps = mk(real_eps, "get_eps")
            n += 1
        if getattr(m, "get_sig_figures", None) is real_sig:
            m.get_sig_figures = mk(real_sig, "get_sig_figures")
            n += 1
    return n


# --------------------------------------------------------------------------

def install(trace=True, lines=False, ctor_hooks=True):
    if ST.installed:
        return
    G = load()
    for cls, name in ((G.Point, "P"), (G.Line, "L"), (G.HalfLine, "H"), (G.Segment, "S"),
                      (G.Plane, "PL"), (G.ConvexPolygon, "PG"), (G.ConvexPolyhedron, "PH"),
                      (G.Vector, "VEC"), (G.Pyramid, "PY")):
        _TYPES[cls] = name
    _install_hash_observers(G)
    _install_intersection_recorder(G)
    if ctor_hooks:
        _install_ctor_hooks(G)
    if trace:
        _install_trace(lines)
    ST.installed = True


# --------------------------------------------------------------------------
# purity snapshots

def snap(o):
    """tuple of the public observable state of a library object (exact values)"""
    k = kind(o)
    if k == "P":
        return ("P", o.x, o.y, o.z)
    if k == "VEC":
        return ("VEC", o[0], o[1], o[2])
    if k == "L":
        return ("L", snap(o.sv), snap(o.dv))
    if k == "PL":
        return ("PL", snap(o.p), snap(o.n))
    if k == "S":
        return ("S", snap(o.start_point), snap(o.end_point), snap(o.line))
    if k == "H":
        return ("H", snap(o.point), snap(o.vector), snap(o.line))
    if k == "PG":
        return ("PG", tuple(snap(p) for p in o.points), snap(o.plane), snap(o.center_point))
    if k == "PH":
        return ("PH", tuple(snap(f) for f in o.convex_polygons),
                frozenset((p.x, p.y, p.z) for p in o.point_set),
                frozenset(frozenset(((s.start_point.x, s.start_point.y, s.start_point.z),
                                     (s.end_point.x, s.end_point.y, s.end_point.z))) for s in o.segment_set),
                frozenset((snap(py.convex_polygon), snap(py.point)) for py in o.pyramid_set), snap(o.center_point))
    if k == "PY":
        return ("PY", snap(o.convex_polygon), snap(o.point))
    if k == "None":
        return None
    if isinstance(o, (int, float, str, bool)):
        return o
    if isinstance(o, (tuple, list)):
        return tuple(snap(x) for x in o)
    return ("?", repr(o))


def snap_diff(a, b, path=""):
    """first difference between two snapshots as a short string (None if equal)"""
    if type(a) != type(b):
        return "%s: %r -> %r" % (path, a, b)
    if isinstance(a, tuple):
        if len(a) != len(b):
            return "%s: length %d -> %d" % (path, len(a), len(b))
        for i, (x, y) in enumerate(zip(a, b)):
            d = snap_diff(x, y, "%s[%s]" % (path, a[0] if i == 0 and isinstance(a[0], str) else i))
            if d:
                return d
        return None
    if a != b and not (isinstance(a, float) and a != a and b != b):
        return "%s: %r -> %r" % (path, a, b)
    return None


# --------------------------------------------------------------------------
# exception classifier

def classify_exc(e):
    if e is None:
        return None
    n = type(e).__name__
    msg = str(e)
    if isinstance(e, NotImplementedError):
        return "NotImplementedError"
    if isinstance(e, TypeError) and "Bug detected" in msg:
        return "BugDetected"
    if isinstance(e, ValueError) and "Bug detected" in msg:
        return "BugDetected"
    if isinstance(e, ZeroDivisionError):
        return "ZeroDivisionError"
    if isinstance(e, ValueError) and "math domain" in msg:
        return "MathDomainError"
    return n


def bad_number(x):
    if isinstance(x, complex):
        return True
    if isinstance(x, float) and (x != x or x in (float("inf"), float("-inf"))):
        return True
    return False


# --------------------------------------------------------------------------
# boundary helper

def call(fn, *args, pure=True):
    """run fn(*args) at the API boundary.  Returns (result, exception, purity
    problem or None).  Operands are snapshotted before and after when ``pure``."""
    before = [snap(a) for a in args] if pure else None
    ST.depth = 0
    exc = None
    res = None
    try:
        res = fn(*args)
    except Exception as e:       # noqa: BLE001 - the classifier decides
        exc = e
    ST.depth = 0
    problem = None
    if pure:
        ST.purity_checks += 1
        for i, a in enumerate(args):
            d = snap_diff(before[i], snap(a), "arg%d" % i)
            if d:
                problem = d
                break
    return res, exc, problem


# --------------------------------------------------------------------------
# invariants of live objects

def _p3(p):
    return (float(p.x), float(p.y), float(p.z))


def _v3(v):
    return (float(v[0]), float(v[1]), float(v[2]))


def _n(a):
    return math.sqrt(a[0] * a[0] + a[1] * a[1] + a[2] * a[2])


def _dist_point_line(x, sv, dv):
    w = K.sub(x, sv)
    return _n(K.cross(w, dv)) / _n(dv)


def invariants(o, deep=True):
    """list of invariant violations of a live library object ([] = fine)"""
    ST.inv_checked += 1
    if _NO_INV:
        return []
    k = kind(o)
    bad = []
    try:
        if k == "P":
            for c in _p3(o):
                if c != c or abs(c) == float("inf"):
                    bad.append("Point coordinate not finite")
        elif k == "L":
            if _n(_v3(o.dv)) <= 1e-9:
                bad.append("Line direction is zero")
        elif k == "PL":
            if abs(_n(_v3(o.n)) - 1.0) > 1e-9:
                bad.append("Plane normal not unit (|n|=%r)" % _n(_v3(o.n)))
            if kind(o.p) != "P":
                bad.append("Plane.p is not a Point")
        elif k == "S":
            a, b = _p3(o.start_point), _p3(o.end_point)
            d = K.sub(b, a)
            if _n(d) <= 1e-9:
                bad.append("Segment endpoints coincide")
            else:
                sv, dv = _v3(o.line.sv), _v3(o.line.dv)
                if _n(dv) <= 1e-9:
                    bad.append("Segment.line direction zero")
                else:
                    if _dist_point_line(a, sv, dv) > 1e-7 or _dist_point_line(b, sv, dv) > 1e-7:
                        bad.append("Segment endpoints not on Segment.line (stale carrier)")
                    if _n(K.cross(d, dv)) / (_n(d) * _n(dv)) > 1e-7:
                        bad.append("Segment.line direction not parallel to the endpoints")
        elif k == "H":
            p, v = _p3(o.point), _v3(o.vector)
            if _n(v) <= 1e-9:
                bad.append("HalfLine vector is zero")
            else:
                sv, dv = _v3(o.line.sv), _v3(o.line.dv)
                if _n(dv) <= 1e-9:
                    bad.append("HalfLine.line direction zero")
                else:
                    if _dist_point_line(p, sv, dv) > 1e-7:
                        bad.append("HalfLine origin not on HalfLine.line (stale carrier)")
                    if _n(K.cross(v, dv)) / (_n(v) * _n(dv)) > 1e-7:
                        bad.append("HalfLine.line direction not parallel to the vector")
        elif k == "PG":
            bad += _inv_polygon(o)
        elif k == "PH":
            bad += _inv_polyhedron(o, deep)
        elif k == "PY":
            bad += _inv_polygon(o.convex_polygon)
    except AttributeError:
        # the object no longer exposes the attribute an invariant reads (a refactoring,
        # not a malformed object): that invariant is not evaluable, never an alarm
        ST.inv_skipped += 1
    except Exception as e:   # a malformed object may not even be readable
        bad.append("invariant evaluation raised %s: %s" % (type(e).__name__, e))
    return bad


def _inv_polygon(o):
    bad = []
    pts = [_p3(p) for p in o.points]
    m = len(pts)
    if m < 3:
        return ["polygon has %d vertices" % m]
    n = _v3(o.plane.n)
    if abs(_n(n) - 1.0) > 1e-9:
        bad.append("polygon plane normal not unit")
    p0 = _p3(o.plane.p)
    scale = max(1.0, max(_n(p) for p in pts))
    for i in range(m):
        for j in range(i + 1, m):
            if _n(K.sub(pts[i], pts[j])) <= 1e-9:
                bad.append("polygon has coincident vertices")
                return bad
    for p in pts:
        if abs(K.dot(n, K.sub(p, p0))) > 1e-7 * scale:
            bad.append("polygon vertex off its plane")
            break
    for i in range(m):
        a, b, c = pts[i], pts[(i + 1) % m], pts[(i + 2) % m]
        e1, e2 = K.sub(b, a), K.sub(c, b)
        s = K.dot(K.cross(e1, e2), n) / (_n(e1) * _n(e2))
        if s <= 1e-9:
            bad.append("polygon cycle not strictly convex counter-clockwise about its normal (sine %.3g at vertex %d)" % (s, (i + 1) % m))
            break
    c = (sum(p[0] for p in pts) / m, sum(p[1] for p in pts) / m, sum(p[2] for p in pts) / m)
    if _n(K.sub(c, _p3(o.center_point))) > 1e-9 * scale:
        bad.append("polygon center_point is not the vertex mean")
    return bad


def _cluster(points, tol=1e-7):
    reps = []
    idx = []
    for p in points:
        for i, q in enumerate(reps):
            if abs(p[0] - q[0]) <= tol and abs(p[1] - q[1]) <= tol and abs(p[2] - q[2]) <= tol:
                idx.append(i)
                break
        else:
            reps.append(p)
            idx.append(len(reps) - 1)
    return reps, idx


def _inv_polyhedron(o, deep=True):
    bad = []
    faces = list(o.convex_polygons)
    V, E, Fc = len(o.point_set), len(o.segment_set), len(faces)
    if V - E + Fc != 2:
        bad.append("Euler characteristic V-E+F = %d" % (V - E + Fc))
    if len(o.pyramid_set) != Fc:
        bad.append("pyramid_set has %d entries for %d faces" % (len(o.pyramid_set), Fc))
    allpts = []
    for f in faces:
        allpts.extend(_p3(p) for p in f.points)
    reps, idx = _cluster(allpts + [_p3(p) for p in o.point_set])
    nface_pts = len(allpts)
    face_ids = set(idx[:nface_pts])
    set_ids = idx[nface_pts:]
    if len(set(set_ids)) != len(set_ids):
        bad.append("point_set holds coincident points")
    if set(set_ids) != face_ids:
        bad.append("point_set differs from the union of the face vertices")
    # edges: every edge in exactly two faces
    cnt = {}
    pos = 0
    for f in faces:
        m = len(f.points)
        ids = idx[pos:pos + m]
        pos += m
        for i in range(m):
            e = frozenset((ids[i], ids[(i + 1) % m]))
            cnt[e] = cnt.get(e, 0) + 1
    wrong = [e for e, c in cnt.items() if c != 2 or len(e) != 2]
    if wrong:
        bad.append("%d edge(s) not shared by exactly two faces" % len(wrong))
    if len(cnt) != E:
        bad.append("segment_set has %d edges, faces have %d" % (E, len(cnt)))
    else:
        seg_edges = set()
        lookup = reps
        for s in o.segment_set:
            a, b = _p3(s.start_point), _p3(s.end_point)
            ia = _find(lookup, a)
            ib = _find(lookup, b)
            seg_edges.add(frozenset((ia, ib)))
        if seg_edges != set(cnt):
            bad.append("segment_set differs from the union of the face edges")
    c = _p3(o.center_point)
    mean = [0.0, 0.0, 0.0]
    for i in face_ids:
        for t in range(3):
            mean[t] += reps[i][t]
    mean = tuple(x / max(1, len(face_ids)) for x in mean)
    scale = max(1.0, max(_n(p) for p in reps))
    if _n(K.sub(mean, c)) > 1e-7 * scale:
        bad.append("center_point is not the vertex mean")
    for f in faces:
        n = _v3(f.plane.n)
        p = _p3(f.points[0])
        s = K.dot(n, K.sub(c, p))
        if s >= -1e-9:
            bad.append("face normal does not point away from the centre (centre not strictly inside)")
            break
    if deep:
        for f in faces:
            b = _inv_polygon(f)
            if b:
                bad.append("face: " + b[0])
                break
    return bad


def _find(reps, p, tol=1e-7):
    for i, q in enumerate(reps):
        if abs(p[0] - q[0]) <= tol and abs(p[1] - q[1]) <= tol and abs(p[2] - q[2]) <= tol:
            return i
    return -1


# --------------------------------------------------------------------------
# object-graph reachability (does a returned object share sub-objects with the operands?)

def reachable_ids(o, acc=None):
    """ids of all library objects reachable from o through its public structure"""
    if acc is None:
        acc = set()
    if o is None or id(o) in acc:
        return acc
    k = kind(o)
    if k not in ("P", "VEC", "L", "PL", "S", "H", "PG", "PH", "PY"):
        if isinstance(o, (list, tuple, set, frozenset)):
            for x in o:
                reachable_ids(x, acc)
        return acc
    acc.add(id(o))
    try:
        if k == "L":
            subs = (o.sv, o.dv)
        elif k == "PL":
            subs = (o.p, o.n)
        elif k == "S":
            subs = (o.start_point, o.end_point, o.line)
        elif k == "H":
            subs = (o.point, o.vector, o.line)
        elif k == "PG":
            subs = tuple(o.points) + (o.plane, o.center_point)
        elif k == "PH":
            subs = tuple(o.convex_polygons) + tuple(o.point_set) + tuple(o.segment_set) + tuple(o.pyramid_set) + (o.center_point,)
        elif k == "PY":
            subs = (o.convex_polygon, o.point)
        else:
            subs = ()
    except AttributeError:
        subs = ()
    for x in subs:
        reachable_ids(x, acc)
    return acc


def shares_state(result, operands):
    """True when `result` (or any part of it) is an object that is also part of one of the operands"""
    mine = reachable_ids(result)
    theirs = set()
    for o in operands:
        reachable_ids(o, theirs)
    return bool(mine & theirs)
