"""Worker fan-out, aggregation, verdicts, evidence.

  python -m g3dv.runner C07 [--tier quick|thorough] [--replay FILE]

Exit codes: 0 held on everything explored (known findings are printed as
KNOWN-FINDING lines), 1 violation (VIOLATION property=<id> replay=<path>),
2 inconclusive (INCONCLUSIVE property=<id> reason=...)."""
import argparse
import array
import hashlib
import importlib
import json
import os
import random
import shutil
import subprocess
import sys
import tempfile
import time
import traceback
from collections import Counter

ROOT = os.path.dirname(os.path.dirname(os.path.abspath(__file__)))
# evidence/ and replay/ are written under VERIF_OUT (default: the checkout itself); the
# self-test points it at a scratch directory so that it never clobbers real evidence
OUT = os.path.abspath(os.environ.get("VERIF_OUT", ROOT))


def _mod(prop):
    return importlib.import_module("g3dv.props." + prop.lower())


# --------------------------------------------------------------------------
# worker

def worker(prop, tier, seed, widx, nworkers, out, replay=None):
    t0 = time.time()
    from . import monitor as M
    from . import kernel as K
    from . import core
    from .desc import enc, dec, show
    mod = _mod(prop)
    M.install(trace=True, lines=True)
    debug_logging = nworkers > 1 and widx == nworkers - 1 and replay is None
    if debug_logging or os.environ.get("G3DV_DEBUG_LOGGING"):
        # configuration dimension: the last worker runs the library at its own DEBUG log level (records are
        # produced and formatted, then dropped): behaviour must not depend on the log level
        import logging
        from .lib import load as _load
        _G = _load()
        logging.disable(logging.NOTSET)
        _G.set_log_level("DEBUG")
        root = logging.getLogger()
        for h_ in list(root.handlers):
            root.removeHandler(h_)
        root.addHandler(logging.NullHandler())
        root.setLevel(logging.DEBUG)
    if hasattr(mod, "setup"):
        mod.setup()
    scale = float(os.environ.get("VERIF_BUDGET", "1"))
    budget = max(1, int(mod.BUDGET[tier] * scale) // nworkers)
    soft = getattr(mod, "SOFT", {}).get(tier, 90 if tier == "quick" else 900)
    rng = random.Random("%s/%s/%d/%d" % (prop, tier, seed, widx))
    status = Counter()
    cells = Counter()
    flagged_cells = Counter()
    why = Counter()
    viols = []
    viol_keys = Counter()
    samples = []
    errors = []
    hashes = array.array("Q")
    hash_admission = getattr(mod, "HASH_ADMISSION", True)
    n = 0
    stopped = "exhausted"
    if replay is not None:
        gen = iter([replay])
    else:
        gen = mod.cases(rng, budget, widx, nworkers, tier)
    every = getattr(mod, "PRELUDE_EVERY", 40)

    def with_preludes(g):
        k = 0
        for c in g:
            k += 1
            if every and k % every == 0:
                yield {"__prelude__": k}
            yield c
    if replay is None and every:
        gen = with_preludes(gen)
    from .props import common as _common
    for case in gen:
        if replay is None:
            if n >= budget and not getattr(mod, "EXHAUSTIVE", False):
                stopped = "budget"
                break
            if (n & 15) == 0 and time.time() - t0 > soft:
                stopped = "deadline"
                break
        n += 1
        M.new_case()
        K.reset()
        try:
            if isinstance(case, dict) and "__prelude__" in case:
                res = _common.judge_prelude(case, verdict=getattr(mod, "SENTINEL", False))
                res["nontrivial"] = False
            else:
                res = mod.judge(case)
        except Exception as e:  # a bug in the harness/oracle: never folded into ok
            res = core.Res(status=core.ORACLE_ERROR, cells=[], nontrivial=False)
            if len(errors) < 5:
                errors.append({"case": enc(case), "error": "%s: %s" % (type(e).__name__, e),
                               "trace": traceback.format_exc(limit=6)})
        st = res["status"]
        flagged = hash_admission and M.ST.hash_flag
        if flagged:
            if st == core.VIOLATION:
                st = core.NOT_ADMITTED
                why["hash-boundary(failed)"] += 1
                res["nontrivial"] = False
            elif st == core.OK:
                st = "ok-flagged"
                res["nontrivial"] = False
                for c in res.get("cells", ()):
                    flagged_cells[c] += 1
        if st == core.NOT_ADMITTED and "why" in res and not flagged:
            why[res["why"]] += 1
        status[st] += 1
        if st in (core.OK, core.VIOLATION):
            for c in res.get("cells", ()):
                cells[c] += 1
            if res.get("nontrivial", True):
                hashes.append(core.case_hash(case))
        if st == core.VIOLATION:
            viol_keys[res["key"]] += 1
            if viol_keys[res["key"]] <= 3 and len(viols) < 60:
                viols.append({"key": res["key"], "what": res["what"], "case": enc(case),
                              "detail": res.get("detail")})
        elif st == core.OK and (len(samples) < 2 or (len(samples) < 6 and rng.random() < 0.002)):
            samples.append({"case": (mod.describe(case) if hasattr(mod, "describe") and "__prelude__" not in case else show(case)),
                            "outcome": res.get("outcome", "ok"), "cells": res.get("cells", [])[:8]})
    extra = mod.worker_report() if hasattr(mod, "worker_report") else {}
    hp = out + ".hashes"
    with open(hp, "wb") as f:
        hashes.tofile(f)
    rep = {
        "widx": widx, "hashseed": os.environ.get("PYTHONHASHSEED"), "cases": n, "stopped": stopped, "debug_logging": bool(debug_logging),
        "status": dict(status), "cells": dict(cells), "flagged_cells": dict(flagged_cells), "why": dict(why),
        "violations": viols, "viol_keys": dict(viol_keys), "samples": samples, "errors": errors,
        "funcs": sorted(M.ST.funcs), "nlines": len(M.ST.lines),
        "raises": {"%s:%s" % k: v for k, v in M.ST.raises.items()},
        "inter_cells": {"%s,%s->%s%s" % (k[0], k[1], k[2], "/inner" if k[3] else ""): v for k, v in M.ST.inter_cells.items()},
        "hash_evals": M.ST.hash_evals, "hash_flags": M.ST.hash_flags_total,
        "purity_checks": M.ST.purity_checks, "inv_checked": M.ST.inv_checked,
        "ctor_counts": dict(M.ST.ctor_counts), "inv_internal": dict(M.ST.inv_internal), "extra": extra, "wall": time.time() - t0,
    }
    with open(out, "w") as f:
        json.dump(rep, f, default=str)      # (sample descriptions may hold exact rationals)
    return rep


# --------------------------------------------------------------------------
# known findings

def load_findings():
    p = os.path.join(ROOT, "known_findings.json")
    if not os.path.exists(p):
        return []
    with open(p) as f:
        return json.load(f)["findings"]


def repo_state():
    repo = os.environ.get("VERIF_REPO", "/repo")
    try:
        head = subprocess.run(["git", "-C", repo, "rev-parse", "HEAD"], capture_output=True, text=True, timeout=20).stdout.strip()
        diff = subprocess.run(["git", "-C", repo, "diff", "HEAD"], capture_output=True, timeout=20).stdout
        return {"repo": repo, "head": head, "diff_sha": hashlib.sha1(diff).hexdigest()[:12] if diff else "clean"}
    except Exception:
        return {"repo": repo, "head": "unknown", "diff_sha": "unknown"}


# --------------------------------------------------------------------------
# main

def hashseed_for(seed, i):
    return (seed * 1000003 + i * 7919 + 1) % 4294967295


def run(prop, tier, seed, nworkers=None, keep=False):
    t0 = time.time()
    mod = _mod(prop)
    nworkers = nworkers or min(int(os.environ.get("VERIF_WORKERS", "16")), os.cpu_count() or 1)
    nworkers = max(1, min(nworkers, getattr(mod, "MAX_WORKERS", 16)))
    work = tempfile.mkdtemp(prefix="g3dv-%s-" % prop)
    soft = getattr(mod, "SOFT", {}).get(tier, 90 if tier == "quick" else 900)
    hard = soft * 3 + 60
    procs = []
    for i in range(nworkers):
        env = dict(os.environ)
        env["PYTHONHASHSEED"] = str(hashseed_for(seed, i))
        env["PYTHONPATH"] = ROOT
        out = os.path.join(work, "w%d.json" % i)
        cmd = [sys.executable, "-m", "g3dv.runner", "--worker", prop, "--tier", tier, "--seed", str(seed),
               "--widx", str(i), "--nworkers", str(nworkers), "--out", out]
        procs.append((i, out, subprocess.Popen(cmd, cwd=ROOT, env=env, stdout=subprocess.PIPE, stderr=subprocess.PIPE)))
    reports = []
    dead = []
    for i, out, p in procs:
        try:
            so, se = p.communicate(timeout=max(1, hard - (time.time() - t0)))
        except subprocess.TimeoutExpired:
            p.kill()
            so, se = p.communicate()
            dead.append((i, "watchdog"))
            continue
        if p.returncode != 0 or not os.path.exists(out):
            dead.append((i, "exit %s: %s" % (p.returncode, se.decode(errors="replace")[-2000:])))
            continue
        with open(out) as f:
            reports.append(json.load(f))
    # ---- aggregate
    status = Counter()
    cells = Counter()
    flagged_cells = Counter()
    why = Counter()
    viol_keys = Counter()
    inter_cells = Counter()
    raises = Counter()
    ctor = Counter()
    inv_internal = Counter()
    funcs = set()
    viols = []
    samples = []
    errors = []
    allhash = set()
    tot = Counter()
    extras = []
    stopped = Counter()
    for r in reports:
        status.update(r["status"])
        cells.update(r["cells"])
        flagged_cells.update(r["flagged_cells"])
        why.update(r["why"])
        viol_keys.update(r["viol_keys"])
        inter_cells.update(r["inter_cells"])
        raises.update(r["raises"])
        ctor.update(r["ctor_counts"])
        inv_internal.update(r.get("inv_internal", {}))
        funcs.update(r["funcs"])
        stopped[r["stopped"]] += 1
        for v in r["violations"]:
            v["hashseed"] = r["hashseed"]
            v["debug_logging"] = r.get("debug_logging", False)
            viols.append(v)
        samples.extend(r["samples"][:2])
        errors.extend(r["errors"])
        extras.append(r["extra"])
        for k in ("cases", "hash_evals", "hash_flags", "purity_checks", "inv_checked", "nlines"):
            tot[k] += r[k] if k != "nlines" else 0
        tot["nlines"] = max(tot["nlines"], r["nlines"])
        hp = os.path.join(work, "w%d.json.hashes" % r["widx"])
        a = array.array("Q")
        with open(hp, "rb") as f:
            a.frombytes(f.read())
        allhash.update(a)
    if not keep:
        shutil.rmtree(work, ignore_errors=True)
    evaluations = tot["cases"]
    judged = status.get("ok", 0) + status.get("violation", 0)
    # ---- classify violations against the known-findings file
    findings = {(f["property"], f["key"]): f for f in load_findings()}
    known_hit = {}
    unknown = []
    for v in viols:
        f = findings.get((prop, v["key"]))
        if f is not None and f.get("status") == "open":
            known_hit.setdefault(v["key"], (f, v))
        else:
            unknown.append(v)
    unknown_keys = [k for k in viol_keys if not (findings.get((prop, k), {}).get("status") == "open")]
    # ---- minimum observation table
    reasons = []
    if dead:
        reasons.append("workers-lost:" + ";".join("%d=%s" % (i, w.split(":")[0]) for i, w in dead))
    if evaluations and status.get("oracle-error", 0) > max(0, 0.001 * evaluations):
        reasons.append("oracle-errors=%d" % status["oracle-error"])
    req_cells = mod.required_cells(tier) if hasattr(mod, "required_cells") else getattr(mod, "REQUIRED_CELLS", {})
    missing = {c: (cells.get(c, 0), m) for c, m in req_cells.items() if cells.get(c, 0) < m}
    if missing:
        reasons.append("under-observed:" + ",".join("%s=%d<%d" % (c, g, m) for c, (g, m) in sorted(missing.items())[:8]))
    req_funcs = getattr(mod, "REQUIRED_FUNCS", ())
    miss_f = [f for f in req_funcs if not any(x.endswith(":" + f) or x.endswith("." + f) for x in funcs)]
    # advisory only: internal function names may legitimately change in a refactoring, so an
    # unreached name is reported in the evidence and never makes a run inconclusive
    if hasattr(mod, "aggregate_check"):
        reasons.extend(mod.aggregate_check(extras, cells, tier))
    if judged < 2:
        reasons.append("judged<2")
    # ---- replay files
    os.makedirs(os.path.join(OUT, "replay"), exist_ok=True)
    os.makedirs(os.path.join(OUT, "evidence"), exist_ok=True)
    rs = repo_state()
    lines = []
    seen_keys = set()
    nrep = 0
    for v in unknown:
        if v["key"] in seen_keys:
            continue
        seen_keys.add(v["key"])
        nrep += 1
        path = os.path.join("replay", "%s-%d.json" % (prop, nrep))
        with open(os.path.join(OUT, path), "w") as f:
            json.dump({"property": prop, "key": v["key"], "what": v["what"], "detail": v.get("detail"), "case": v["case"],
                       "hashseed": v["hashseed"], "debug_logging": v.get("debug_logging", False), "tier": tier, "seed": seed, "repo": rs}, f, indent=1)
        lines.append("VIOLATION property=%s replay=%s key=%s count=%d :: %s" % (prop, os.path.join(OUT, path), v["key"], viol_keys[v["key"]], v["what"]))
    for k in unknown_keys:
        if k not in seen_keys:   # witness list was capped; still must be reported
            lines.append("VIOLATION property=%s replay=none key=%s count=%d" % (prop, k, viol_keys[k]))
    for k, (f, v) in sorted(known_hit.items()):
        lines.append("KNOWN-FINDING: property=%s %s [key=%s, seen %d times this run; e.g. %s]" % (prop, f["what"], k, viol_keys[k], v["what"]))
    wall = time.time() - t0
    # ---- evidence
    ev = {
        "property_id": prop, "tier": tier, "seed": seed, "level": "exploration",
        "coverage": {
            "evaluations": evaluations,
            "distinct_nontrivial": len(allhash),
            "rule": getattr(mod, "RULE", ""),
            "samples": samples[:8] if samples else [{"note": "no passing sample recorded"}],
            "exhaustive": bool(getattr(mod, "EXHAUSTIVE", False)) and stopped.get("exhausted", 0) == len(reports) and not dead,
            "judged": judged,
            "status_counts": dict(status),
            "not_admitted_reasons": dict(why),
            "cells": dict(sorted(cells.items())),
            "cells_seen_only_in_hash_flagged_cases": dict(sorted(flagged_cells.items())),
            "required_cells": req_cells,
            "library_functions_reached": sorted(funcs),
            "expected_internal_functions_not_reached(advisory)": miss_f,
            "library_lines_reached_max_per_worker": tot["nlines"],
            "raise_sites_reached": dict(raises),
            "intersection_calls_observed": dict(sorted(inter_cells.items())),
            "monitor_counters": {"hash_evaluations_observed": tot["hash_evals"], "hash_boundary_flags": tot["hash_flags"],
                                 "purity_snapshot_pairs": tot["purity_checks"], "invariant_evaluations": tot["inv_checked"],
                                 "constructor_and_move_hook_events": dict(ctor),
                                 "internal_object_invariant_diagnostics(sampled, not a verdict)": dict(inv_internal)},
            "violation_keys": dict(viol_keys),
            "known_findings_hit": sorted(known_hit),
            "workers": len(reports), "workers_lost": len(dead), "worker_stop_reasons": dict(stopped),
            "hash_seeds": [hashseed_for(seed, i) for i in range(nworkers)],
            "workers_run_at_library_log_level_DEBUG": sum(1 for r in reports if r.get("debug_logging")),
            "repo": rs,
            "property_specific": _merge_extras(extras),
            "inconclusive_reasons": reasons,
        },
        "assumptions": list(getattr(mod, "ASSUMPTIONS", ())) + [
            "the exact kernel g3dv/kernel.py and the comparators g3dv/desc.py are the trusted base",
            "only generated cases are judged; cases inside the tolerance band or on a hash rounding boundary are counted, not judged"],
        "wall_s": round(wall, 2),
        "violations": sum(viol_keys[k] for k in unknown_keys),
    }
    with open(os.path.join(OUT, "evidence", prop + ".json"), "w") as f:
        json.dump(ev, f, indent=1, default=str)
    for ln in lines:
        print(ln)
    for e in errors[:3]:
        print("ORACLE-ERROR: %s\n%s" % (e["error"], e["trace"]), file=sys.stderr)
    for i, w in dead:
        print("WORKER-LOST %d: %s" % (i, w), file=sys.stderr)
    summary = "property=%s tier=%s seed=%d evaluations=%d judged=%d distinct=%d not_admitted=%d flagged_ok=%d oracle_errors=%d wall=%.1fs" % (
        prop, tier, seed, evaluations, judged, len(allhash), status.get("not-admitted", 0), status.get("ok-flagged", 0),
        status.get("oracle-error", 0), wall)
    if unknown_keys:
        print("FAILED " + summary)
        return 1
    if reasons:
        print("INCONCLUSIVE property=%s reason=%s" % (prop, " | ".join(reasons)))
        print("INCONCLUSIVE " + summary)
        return 2
    print("HELD " + summary)
    return 0


def _merge_extras(extras):
    out = {}
    for e in extras:
        for k, v in (e or {}).items():
            if isinstance(v, (int, float)) and not isinstance(v, bool):
                out[k] = out.get(k, 0) + v
            elif isinstance(v, dict):
                d = out.setdefault(k, {})
                for kk, vv in v.items():
                    if isinstance(vv, (int, float)):
                        d[kk] = d.get(kk, 0) + vv
                    else:
                        d[kk] = vv
            elif isinstance(v, list):
                lst = out.setdefault(k, [])
                for x in v:
                    if x not in lst and len(lst) < 400:
                        lst.append(x)
            else:
                out[k] = v
    return out


def replay(prop, path):
    from .desc import dec
    with open(path) as f:
        rp = json.load(f)
    prop = rp.get("property", prop)
    hs = rp.get("hashseed")
    if rp.get("debug_logging"):
        os.environ["G3DV_DEBUG_LOGGING"] = "1"
    if hs is not None and os.environ.get("PYTHONHASHSEED") != str(hs):
        env = dict(os.environ)
        env["PYTHONHASHSEED"] = str(hs)
        env["PYTHONPATH"] = ROOT
        return subprocess.call([sys.executable, "-m", "g3dv.runner", prop, "--replay", path], cwd=ROOT, env=env)
    out = tempfile.mktemp(prefix="g3dv-replay-")
    rep = worker(prop, rp.get("tier", "quick"), rp.get("seed", 0), 0, 1, out, replay=dec(rp["case"]))
    for p in (out, out + ".hashes"):
        if os.path.exists(p):
            os.remove(p)
    print(json.dumps({"status": rep["status"], "violations": [{"key": v["key"], "what": v["what"]} for v in rep["violations"]],
                      "errors": rep["errors"]}, indent=1))
    if rep["status"].get("violation"):
        print("VIOLATION property=%s replay=%s (reproduced)" % (prop, os.path.abspath(path)))
        return 1
    print("replay: no violation reproduced (status %s)" % dict(rep["status"]))
    return 0


def main(argv=None):
    ap = argparse.ArgumentParser()
    ap.add_argument("prop")
    ap.add_argument("--tier", default=os.environ.get("VERIF_TIER", "quick"))
    ap.add_argument("--seed", type=int, default=int(os.environ.get("VERIF_SEED", "0")))
    ap.add_argument("--replay")
    ap.add_argument("--worker", action="store_true")
    ap.add_argument("--widx", type=int, default=0)
    ap.add_argument("--nworkers", type=int, default=None)
    ap.add_argument("--out")
    ap.add_argument("--keep", action="store_true")
    a = ap.parse_args(argv)
    prop = a.prop.upper()
    if a.tier not in ("quick", "thorough"):
        a.tier = "quick"
    if a.worker:
        worker(prop, a.tier, a.seed, a.widx, a.nworkers or 1, a.out)
        return 0
    if a.replay:
        return replay(prop, a.replay)
    return run(prop, a.tier, a.seed, a.nworkers, a.keep)


if __name__ == "__main__":
    sys.exit(main())
