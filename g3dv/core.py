"""Shared verdict plumbing for the property modules."""
import hashlib
import json

from . import kernel as K
from . import monitor as M
from .desc import enc

MARGIN = 1e-3        # admission margin (DESIGN 2.3)

OK = "ok"
VIOLATION = "violation"
NOT_ADMITTED = "not-admitted"
ORACLE_ERROR = "oracle-error"


class Res(dict):
    """result of judging one case"""


def ok(cells=(), nontrivial=True, **kw):
    return Res(status=OK, cells=list(cells), nontrivial=nontrivial, **kw)


def violation(key, what, cells=(), **kw):
    """key: mechanism key (structural, never coordinates); what: one-line witness"""
    kw.pop("nontrivial", None)
    return Res(status=VIOLATION, key=key, what=what, cells=list(cells), nontrivial=True, **kw)


def not_admitted(why, cells=()):
    return Res(status=NOT_ADMITTED, why=why, cells=list(cells), nontrivial=False)


def admitted():
    """margin admission for the oracle decisions taken so far in this case"""
    return K.margin() >= MARGIN


def case_hash(case):
    s = json.dumps(enc(case), sort_keys=True, separators=(",", ":"))
    return int.from_bytes(hashlib.blake2b(s.encode(), digest_size=8).digest(), "big")


class Multi:
    """collects the outcome of several sub-checks of one case: the first
    violation wins, cells accumulate"""

    def __init__(self):
        self.cells = []
        self.viol = None
        self.judged = 0

    def cell(self, *names):
        self.cells.extend(names)

    def fail(self, key, what, **kw):
        if self.viol is None:
            self.viol = (key, what, kw)

    def result(self, **kw):
        if self.viol is not None:
            key, what, k2 = self.viol
            k2.update(kw)
            return violation(key, what, self.cells, **k2)
        return ok(self.cells, **kw)
