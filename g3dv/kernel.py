"""Exact reference model (the oracle) for Geometry3D.

Independent of the library: shares no code and no algorithm with it.
Objects are *descriptors* (plain tuples) over numbers that support + - * / and
comparison; in exact mode these are ``fractions.Fraction`` (or int), in float
mode plain floats with a general-position tolerance.

  ('P',  p)                 point
  ('L',  p, d)              line  p + t d,       t in R
  ('H',  p, d)              half line p + t d,   t >= 0
  ('S',  p, q)              segment
  ('PL', p, n)              plane n.(x-p) = 0
  ('PG', (v0, v1, ...))     convex polygon, vertices in cyclic order (either sense)
  ('PH', verts, faces)      convex polyhedron; faces = tuple of vertex cycles

Every sign decision goes through :func:`sgn`, which records the smallest
non-zero *normalised* magnitude (a length, or a sine for angular decisions) a
case was decided on -- the admission margin of DESIGN.md section 2.3.
"""
from fractions import Fraction as F
from math import gcd, sqrt
import itertools

INF = float("inf")


class _State:
    tol = 0.0          # 0.0: exact mode; > 0: float mode, |m| <= tol is "zero"
    margin = INF       # smallest non-zero normalised magnitude decided on
    decisions = 0


ST = _State()


def reset(tol=0.0):
    ST.tol = tol
    ST.margin = INF
    ST.decisions = 0


def margin():
    return ST.margin


def note(m):
    """record a non-negative normalised magnitude that a decision relied on"""
    ST.decisions += 1
    if m < ST.margin:
        ST.margin = m


def sgn(x, scale=1.0):
    """sign of x (-1, 0, 1); ``scale`` > 0 turns |x| into a length or a sine"""
    ST.decisions += 1
    if ST.tol == 0.0:
        if x == 0:
            return 0
        m = abs(float(x)) / scale
    else:
        m = abs(x) / scale
        if m <= ST.tol:
            return 0
    if m < ST.margin:
        ST.margin = m
    return 1 if x > 0 else -1


# --------------------------------------------------------------------------
# vectors

def V(*a):
    return tuple(F(x) for x in a)


def sub(a, b):
    return (a[0] - b[0], a[1] - b[1], a[2] - b[2])


def add(a, b):
    return (a[0] + b[0], a[1] + b[1], a[2] + b[2])


def mul(a, k):
    return (a[0] * k, a[1] * k, a[2] * k)


def dot(a, b):
    return a[0] * b[0] + a[1] * b[1] + a[2] * b[2]


def cross(a, b):
    return (a[1] * b[2] - a[2] * b[1], a[2] * b[0] - a[0] * b[2], a[0] * b[1] - a[1] * b[0])


def norm(a):
    return sqrt(float(dot(a, a)))


def fl(a):
    return (float(a[0]), float(a[1]), float(a[2]))


def vzero(a, scale=1.0):
    """is vector a zero (decision recorded with |a|/scale)"""
    if ST.tol == 0.0:
        if a[0] == 0 and a[1] == 0 and a[2] == 0:
            ST.decisions += 1
            return True
        note(norm(a) / scale)
        return False
    m = norm(a) / scale
    ST.decisions += 1
    if m <= ST.tol:
        return True
    if m < ST.margin:
        ST.margin = m
    return False


def centroid(pts):
    n = len(pts)
    return (sum(p[0] for p in pts) / n, sum(p[1] for p in pts) / n, sum(p[2] for p in pts) / n)


# --------------------------------------------------------------------------
# one-dimensional objects

def one_d(o):
    k = o[0]
    if k == "L":
        return o[1], o[2], -INF, INF
    if k == "H":
        return o[1], o[2], 0, INF
    if k == "S":
        return o[1], sub(o[2], o[1]), 0, 1
    raise ValueError(k)


def mk1d(p, d, lo, hi):
    if lo == -INF and hi == INF:
        return ("L", p, d)
    if hi == INF:
        return ("H", add(p, mul(d, lo)), d)
    if lo == -INF:
        return ("H", add(p, mul(d, hi)), mul(d, -1))
    if lo == hi:
        return ("P", add(p, mul(d, lo)))
    if lo > hi:
        return None
    return ("S", add(p, mul(d, lo)), add(p, mul(d, hi)))


def _fin(x):
    return x != INF and x != -INF


# --------------------------------------------------------------------------
# H-representations

def polygon_normal(vs):
    """a normal of the polygon's plane: the cross product of largest magnitude
    among consecutive triples (robust for float vertices, exact for exact ones)"""
    best = None
    bestm = -1.0
    m = len(vs)
    for i in range(m):
        n = cross(sub(vs[(i + 1) % m], vs[i]), sub(vs[(i + 2) % m], vs[i]))
        mm = float(dot(n, n))
        if mm > bestm:
            best, bestm = n, mm
        if ST.tol == 0.0 and mm > 0:
            return n
    return best


def constraints(o):
    """list of (a, b, kind): a.x = b ('eq') or a.x <= b ('le')"""
    k = o[0]
    if k == "PL":
        return [(o[2], dot(o[2], o[1]), "eq")]
    if k == "PG":
        vs = o[1]
        n = polygon_normal(vs)
        c = centroid(vs)
        cs = [(n, dot(n, vs[0]), "eq")]
        m = len(vs)
        for i in range(m):
            e = sub(vs[(i + 1) % m], vs[i])
            a = cross(e, n)
            # orient outward (away from the centroid) whatever the cycle sense
            if dot(a, sub(c, vs[i])) > 0:
                a = mul(a, -1)
            cs.append((a, dot(a, vs[i]), "le"))
        return cs
    if k == "PH":
        vs, faces = o[1], o[2]
        c = centroid(vs)
        cs = []
        for f in faces:
            n = polygon_normal(f)
            if dot(n, sub(c, f[0])) > 0:
                n = mul(n, -1)
            cs.append((n, dot(n, f[0]), "le"))
        return cs
    raise ValueError(k)


# --------------------------------------------------------------------------
# membership

def contains_point(o, x):
    k = o[0]
    if k == "P":
        return vzero(sub(x, o[1]))
    if k in ("L", "H", "S"):
        p, d, lo, hi = one_d(o)
        v = sub(x, p)
        c = cross(v, d)
        nd = norm(d)
        nv = norm(v)
        if nv == 0:
            return lo <= 0 <= hi
        # distance from the carrier and sine of the angle seen from the support point
        if not vzero(c, nd):
            note(norm(c) / (nd * nv))
            return False
        t = dot(v, d) / dot(d, d)
        ok = True
        if _fin(lo) and sgn(t - lo, 1.0 / nd) < 0:
            ok = False
        if _fin(hi) and sgn(hi - t, 1.0 / nd) < 0:
            ok = False
        return ok
    ok = True
    for a, b, kind in constraints(o):
        s = sgn(dot(a, x) - b, norm(a))
        if kind == "eq" and s != 0:
            ok = False
        if kind == "le" and s > 0:
            ok = False
    return ok


def vertices_of(o):
    k = o[0]
    if k == "P":
        return [o[1]]
    if k == "S":
        return [o[1], o[2]]
    if k == "PG":
        return list(o[1])
    if k == "PH":
        return list(o[1])
    raise ValueError(k)


def subset(x, s):
    """is every point of x in s (exact containment of the denoted sets)"""
    kx, ks = x[0], s[0]
    if kx in ("P", "S", "PG", "PH"):
        r = True
        for v in vertices_of(x):
            if not contains_point(s, v):
                r = False
        return r
    if kx == "L":
        if ks == "L":
            return contains_point(s, x[1]) and vzero(cross(x[2], s[2]), norm(x[2]) * norm(s[2]))
        if ks == "PL":
            return (sgn(dot(x[2], s[2]), norm(x[2]) * norm(s[2])) == 0) & contains_point(s, x[1])
        return False
    if kx == "H":
        if ks == "L":
            return contains_point(s, x[1]) and vzero(cross(x[2], s[2]), norm(x[2]) * norm(s[2]))
        if ks == "H":
            if not vzero(cross(x[2], s[2]), norm(x[2]) * norm(s[2])):
                return False
            if sgn(dot(x[2], s[2]), norm(x[2]) * norm(s[2])) <= 0:
                return False
            return contains_point(s, x[1])
        if ks == "PL":
            return (sgn(dot(x[2], s[2]), norm(x[2]) * norm(s[2])) == 0) & contains_point(s, x[1])
        return False
    if kx == "PL":
        if ks == "PL":
            return vzero(cross(x[2], s[2]), norm(x[2]) * norm(s[2])) and contains_point(s, x[1])
        return False
    raise ValueError(kx)


# --------------------------------------------------------------------------
# linear algebra helpers

def det3(a, b, c):
    return (a[0] * (b[1] * c[2] - b[2] * c[1])
            - a[1] * (b[0] * c[2] - b[2] * c[0])
            + a[2] * (b[0] * c[1] - b[1] * c[0]))


def solve3h(r0, r1, r2):
    """solve a_i . x = b_i (i=0..2) by Cramer's rule; returns (N, D) with x = N / D
    or None if singular (D == 0). rows are (a, b)."""
    a0, a1, a2 = r0[0], r1[0], r2[0]
    D = det3(a0, a1, a2)
    if D == 0:
        return None
    b0, b1, b2 = r0[1], r1[1], r2[1]
    Nx = det3((b0, a0[1], a0[2]), (b1, a1[1], a1[2]), (b2, a2[1], a2[2]))
    Ny = det3((a0[0], b0, a0[2]), (a1[0], b1, a1[2]), (a2[0], b2, a2[2]))
    Nz = det3((a0[0], a0[1], b0), (a1[0], a1[1], b1), (a2[0], a2[1], b2))
    return (Nx, Ny, Nz), D


def _lcm(a, b):
    return a // gcd(a, b) * b


def to_int_constraint(c):
    """scale an exact constraint by a positive integer so that all entries are ints"""
    a, b, kind = c
    m = 1
    for x in (a[0], a[1], a[2], b):
        if isinstance(x, F):
            m = _lcm(m, x.denominator)
    ai = tuple(int(x * m) for x in a)
    return (ai, int(b * m), kind)


def affine_rank(pts):
    """0 point, 1 collinear, 2 coplanar, 3 spatial (decisions recorded)"""
    if len(pts) == 1:
        return 0
    p0 = pts[0]
    vs = [sub(p, p0) for p in pts[1:]]
    v1 = None
    for v in vs:
        if not vzero(v):
            v1 = v
            break
    if v1 is None:
        return 0
    n = None
    n1 = norm(v1)
    for v in vs:
        c = cross(v1, v)
        if not vzero(c, n1):
            n = c
            break
    if n is None:
        return 1
    nn = norm(n)
    r = 2
    for v in vs:
        if sgn(dot(n, v), nn) != 0:
            r = 3
    return r


def vertex_enum(cs):
    """all vertices of {x: constraints}: brute force over constraint triples.

    Exact mode works on integer-scaled constraints with homogeneous candidates
    (no Fraction arithmetic in the inner loop).  A candidate's values on all
    constraints are recorded as margins unless the candidate is robustly
    infeasible *and* we are past the cheap filter -- here every value is
    recorded (conservative, DESIGN 2.3)."""
    exact = ST.tol == 0.0
    if exact:
        cs = [to_int_constraint(c) for c in cs]
    inv = []
    for a, b, kind in cs:
        na = norm(a)
        if na == 0:
            raise ValueError("zero constraint normal")
        inv.append(1.0 / na)
    rows = [(c[0], c[1]) for c in cs]
    kinds = [c[2] for c in cs]
    n = len(cs)
    verts = {}
    best = ST.margin
    tol = ST.tol
    ndec = 0
    for i, j, k in itertools.combinations(range(n), 3):
        r = solve3h(rows[i], rows[j], rows[k])
        if r is None:
            continue
        if not exact:
            # conditioning guard for float mode: nearly dependent triple
            a0, a1, a2 = rows[i][0], rows[j][0], rows[k][0]
            cond = abs(r[1]) * inv[i] * inv[j] * inv[k]
            ndec += 1
            if cond < 1e-6:
                if cond > 1e-12 and cond < best:
                    best = cond   # a nearly singular triple is itself a tiny margin
                continue
        N, D = r
        aD = abs(D)
        sD = 1 if D > 0 else -1
        ok = True
        cand_best = INF
        for m in range(n):
            if m == i or m == j or m == k:
                continue
            a, b = rows[m]
            v = (a[0] * N[0] + a[1] * N[1] + a[2] * N[2] - b * D)
            if exact:
                if v != 0:
                    mag = abs(v) * inv[m]
                    if mag < cand_best:
                        cand_best = mag
                    if kinds[m] == "eq" or (v > 0) == (sD > 0):
                        ok = False
            else:
                mag = abs(v) * inv[m] / aD
                if mag > tol:
                    if mag * aD < cand_best:
                        cand_best = mag * aD
                    if kinds[m] == "eq" or (v > 0) == (sD > 0):
                        ok = False
        ndec += n - 3
        if cand_best != INF:
            cb = float(cand_best) / float(aD)
            if cb < best:
                best = cb
        if ok:
            if exact:
                x = (F(N[0], D), F(N[1], D), F(N[2], D))
                verts[x] = True
            else:
                x = (N[0] / D, N[1] / D, N[2] / D)
                for q in verts:
                    if abs(q[0] - x[0]) <= 1e-7 and abs(q[1] - x[1]) <= 1e-7 and abs(q[2] - x[2]) <= 1e-7:
                        break
                else:
                    verts[x] = True
    ST.decisions += ndec
    if best < ST.margin:
        ST.margin = best
    return list(verts)


def hull_desc(verts):
    """descriptor of the convex hull of a finite vertex set given as *its own
    vertices* (output of vertex_enum): P, S, PGS(set) or PHS(set)"""
    if not verts:
        return None
    r = affine_rank(verts)
    if r == 0:
        return ("P", verts[0])
    if r == 1:
        d = None
        for v in verts[1:]:
            dd = sub(v, verts[0])
            if norm(dd) > 0 and (d is None or norm(dd) > norm(d)):
                d = dd
        ts = sorted(verts, key=lambda v: dot(sub(v, verts[0]), d))
        return ("S", ts[0], ts[-1])
    if r == 2:
        return ("PGS", tuple(verts))
    return ("PHS", tuple(verts))


# --------------------------------------------------------------------------
# intersection

_ORDER = {"P": 0, "L": 1, "H": 1, "S": 1, "PL": 2, "PG": 3, "PH": 4}


def inter(a, b):
    """exact a ∩ b as a descriptor (None when disjoint).  Bounded 2-D/3-D results
    come back as ('PGS', verts) / ('PHS', verts): vertex sets."""
    if a is None or b is None:
        return None
    ka, kb = a[0], b[0]
    if _ORDER[ka] > _ORDER[kb]:
        a, b, ka, kb = b, a, kb, ka
    if ka == "P":
        return a if contains_point(b, a[1]) else None
    if ka in ("L", "H", "S") and kb in ("L", "H", "S"):
        return _inter_1d_1d(a, b)
    if ka in ("L", "H", "S"):
        return _inter_1d_k(a, b)
    if ka == "PL" and kb == "PL":
        n1, n2 = a[2], b[2]
        c = cross(n1, n2)
        nn = norm(n1) * norm(n2)
        if vzero(c, nn):
            if sgn(dot(n1, sub(b[1], a[1])), norm(n1)) != 0:
                return None
            return a
        r = solve3h((n1, dot(n1, a[1])), (n2, dot(n2, b[1])), (c, 0))
        N, D = r
        x = (N[0] / D, N[1] / D, N[2] / D) if ST.tol else (F(N[0]) / D, F(N[1]) / D, F(N[2]) / D)
        return ("L", x, c)
    cs = constraints(a) + constraints(b)
    return hull_desc(vertex_enum(cs))


def _inter_1d_1d(a, b):
    p1, d1, lo1, hi1 = one_d(a)
    p2, d2, lo2, hi2 = one_d(b)
    c = cross(d1, d2)
    w = sub(p2, p1)
    n1, n2 = norm(d1), norm(d2)
    if vzero(c, n1 * n2):
        cw = cross(w, d1)
        nw = norm(w)
        if nw > 0 and not vzero(cw, n1):
            note(norm(cw) / (n1 * nw))
            # the library may also look from the other support point / direction
            return None
        # same carrier: map b's interval into a's parameter
        dd = dot(d1, d1)
        t0 = dot(w, d1) / dd
        k = dot(d2, d1) / dd

        def mp(s):
            if not _fin(s):
                return s if k > 0 else -s
            return t0 + k * s
        l2, h2 = mp(lo2), mp(hi2)
        if l2 > h2:
            l2, h2 = h2, l2
        for x in (lo1, hi1):
            for y in (l2, h2):
                if _fin(x) and _fin(y):
                    sgn(x - y, 1.0 / n1)
        lo = max(lo1, l2)
        hi = min(hi1, h2)
        if lo > hi:
            return None
        return mk1d(p1, d1, lo, hi)
    nc = norm(c)
    if sgn(dot(w, c), nc) != 0:
        return None
    cc = dot(c, c)
    t = dot(cross(w, d2), c) / cc
    s = dot(cross(w, d1), c) / cc
    ok = True
    for tt, lo, hi, nd in ((t, lo1, hi1, n1), (s, lo2, hi2, n2)):
        if _fin(lo) and sgn(tt - lo, 1.0 / nd) < 0:
            ok = False
        if _fin(hi) and sgn(hi - tt, 1.0 / nd) < 0:
            ok = False
    if ok:
        return ("P", add(p1, mul(d1, t)))
    return None


def _inter_1d_k(a, b):
    p, d, lo, hi = one_d(a)
    nd = norm(d)
    cs = constraints(b)
    ts = []
    empty = False
    for n, b0, kind in cs:
        nn = norm(n)
        dn = dot(d, n)
        val = b0 - dot(n, p)
        if sgn(dn, nd * nn) == 0:
            s = sgn(val, nn)
            if (kind == "eq" and s != 0) or (kind == "le" and s < 0):
                empty = True
            continue
        t = val / dn
        ts.append(t)
        if kind == "eq":
            lo = max(lo, t)
            hi = min(hi, t)
        elif dn > 0:
            hi = min(hi, t)
        else:
            lo = max(lo, t)
    # near-coincident clip parameters (line passing close to an edge / vertex,
    # endpoint close to a face): record them as margins
    fin = [x for x in (one_d(a)[2], one_d(a)[3]) if _fin(x)] + ts
    for i in range(len(fin)):
        for j in range(i + 1, len(fin)):
            sgn(fin[i] - fin[j], 1.0 / nd)
    if empty or lo > hi:
        return None
    return mk1d(p, d, lo, hi)


def inter_all(objs):
    """exact intersection of several descriptors (used as third opinion for
    associativity): fold pairwise, upgrading vertex-set results to full bodies"""
    cur = objs[0]
    for o in objs[1:]:
        if cur is None:
            return None
        cur = inter(as_body(cur), as_body(o))
    return cur


# --------------------------------------------------------------------------
# hulls (exact or tolerant), used to build bodies and to turn results into inputs

def hull2d(pts, n):
    """extreme points of coplanar pts in cyclic order counter-clockwise about n
    (gift wrapping, exact orientation tests; collinear points dropped)"""
    pts = list(dict.fromkeys(pts))
    if len(pts) < 3:
        return pts

    def orient(a, b, c):
        return dot(cross(sub(b, a), sub(c, a)), n)
    start = min(pts)
    hull = []
    cur = start
    while True:
        hull.append(cur)
        nxt = None
        for p in pts:
            if p == cur:
                continue
            if nxt is None:
                nxt = p
                continue
            o = orient(cur, nxt, p)
            if o < 0 or (o == 0 and dot(sub(p, cur), sub(p, cur)) > dot(sub(nxt, cur), sub(nxt, cur))):
                nxt = p
        cur = nxt
        if cur == start or cur is None or len(hull) > len(pts):
            break
    return hull


def plane_key(n, p):
    """canonical hashable key of the oriented plane through p with normal n (exact)"""
    for k in n:
        if k != 0:
            s = abs(k)
            nn = tuple(x / s for x in n)
            return (nn, dot(nn, p))
    raise ValueError("zero normal")


def hull3d(pts):
    """('PH', verts, faces) of the convex hull of exact points, or None if flat.
    Brute force over triples: fine for <= ~16 points."""
    pts = list(dict.fromkeys(pts))
    if len(pts) < 4:
        return None
    saved = (ST.margin, ST.decisions)
    r = affine_rank(pts)
    ST.margin, ST.decisions = saved
    if r < 3:
        return None
    faces = {}
    for a, b, c in itertools.combinations(pts, 3):
        n = cross(sub(b, a), sub(c, a))
        if n[0] == 0 and n[1] == 0 and n[2] == 0:
            continue
        pos = neg = False
        on = []
        for p in pts:
            s = dot(n, sub(p, a))
            if s > 0:
                pos = True
            elif s < 0:
                neg = True
            else:
                on.append(p)
            if pos and neg:
                break
        if pos and neg:
            continue
        if pos:
            n = mul(n, -1)
        key = plane_key(n, a)
        if key not in faces:
            faces[key] = tuple(hull2d(on, n))
    verts = tuple(dict.fromkeys(v for f in faces.values() for v in f))
    return ("PH", verts, tuple(faces.values()))


def as_body(o):
    """turn a vertex-set result (PGS / PHS) into a full input descriptor"""
    if o is None:
        return None
    if o[0] == "PGS":
        vs = list(o[1])
        n = None
        for a, b, c in itertools.combinations(vs, 3):
            nn = cross(sub(b, a), sub(c, a))
            if nn[0] != 0 or nn[1] != 0 or nn[2] != 0:
                n = nn
                break
        return ("PG", tuple(hull2d(vs, n)))
    if o[0] == "PHS":
        return hull3d(list(o[1]))
    return o


# --------------------------------------------------------------------------
# measures, distance, angle

def dist2(a, b):
    """exact squared Euclidean distance between P / L / PL descriptors"""
    ka, kb = a[0], b[0]
    if _ORDER[ka] > _ORDER[kb] or (ka == "PL" and kb != "PL"):
        a, b, ka, kb = b, a, kb, ka
    if ka == "P" and kb == "P":
        w = sub(a[1], b[1])
        return dot(w, w)
    if ka == "P" and kb == "L":
        w = sub(a[1], b[1])
        c = cross(w, b[2])
        return dot(c, c) / dot(b[2], b[2])
    if ka == "P" and kb == "PL":
        v = dot(b[2], sub(a[1], b[1]))
        return v * v / dot(b[2], b[2])
    if ka == "L" and kb == "L":
        c = cross(a[2], b[2])
        w = sub(b[1], a[1])
        if vzero(c, norm(a[2]) * norm(b[2])):
            cw = cross(w, a[2])
            return dot(cw, cw) / dot(a[2], a[2])
        v = dot(w, c)
        return v * v / dot(c, c)
    if ka == "L" and kb == "PL":
        if sgn(dot(a[2], b[2]), norm(a[2]) * norm(b[2])) != 0:
            return 0
        v = dot(b[2], sub(a[1], b[1]))
        return v * v / dot(b[2], b[2])
    raise ValueError((ka, kb))


def cos2(u, v):
    uv = dot(u, v)
    return uv * uv / (dot(u, u) * dot(v, v))


def seg_len(p, q):
    return sqrt(float(dot(sub(p, q), sub(p, q))))


def polygon_perimeter(vs):
    m = len(vs)
    return sum(seg_len(vs[i], vs[(i + 1) % m]) for i in range(m))


def polygon_area(vs):
    """area from the exact vector sum 1/2 |sum v_i x v_{i+1}| (one sqrt)"""
    m = len(vs)
    s = (0, 0, 0)
    o = vs[0]
    for i in range(1, m - 1):
        s = add(s, cross(sub(vs[i], o), sub(vs[i + 1], o)))
    return 0.5 * sqrt(float(dot(s, s)))


def polyhedron_edges(ph):
    es = set()
    for f in ph[2]:
        m = len(f)
        for i in range(m):
            es.add(frozenset((f[i], f[(i + 1) % m])))
    return es


def polyhedron_length(ph):
    t = 0.0
    for e in polyhedron_edges(ph):
        p, q = tuple(e)
        t += seg_len(p, q)
    return t


def polyhedron_area(ph):
    return sum(polygon_area(f) for f in ph[2])


def polyhedron_volume(ph):
    """exact volume: sum over faces (fan triangles) of |det| / 6 about the centroid"""
    c = centroid(ph[1])
    tot = 0
    for f in ph[2]:
        o = f[0]
        for i in range(1, len(f) - 1):
            tot += abs(det3(sub(o, c), sub(f[i], c), sub(f[i + 1], c)))
    return tot / 6


# --------------------------------------------------------------------------
# exact linear systems (C16)

def rref_rank(rows, ncols):
    """rank of the first ncols columns of rows (exact Fractions)"""
    m = [[F(x) for x in r[:ncols]] for r in rows]
    rank = 0
    nrows = len(m)
    for c in range(ncols):
        p = None
        for r in range(rank, nrows):
            if m[r][c] != 0:
                p = r
                break
        if p is None:
            continue
        m[rank], m[p] = m[p], m[rank]
        for r in range(nrows):
            if r != rank and m[r][c] != 0:
                f = m[r][c] / m[rank][c]
                m[r] = [x - f * y for x, y in zip(m[r], m[rank])]
        rank += 1
        if rank == nrows:
            break
    return rank
