#!/bin/bash
# quick evaluation of seeded changes: tools/qseed.sh <seed-id> [PROP]  (scratch copy, patch, tagged check quick; no demo / suite)
id="$1"; prop="${2:-$(python3 -c "import json;m=json.load(open('/verif/seeded/$id/meta.json'));print(m.get('checked_by',m['property']))")}"
d=$(mktemp -d /tmp/qseed-XXXXXX)
cp -r /repo/Geometry3D /repo/docs "$d/" 2>/dev/null; (cd "$d" && patch -p1 -s < /verif/seeded/$id/patch.diff) || { echo "patch failed"; rm -rf "$d"; exit 2; }
VERIF_REPO="$d" VERIF_OUT="$d/.out" /verif/check "$prop" --tier quick > "$d/log" 2>&1; rc=$?
echo "$id $prop rc=$rc $(grep -c ^VIOLATION "$d/log") violations; $(grep ^VIOLATION "$d/log" | sed 's/.*key=//' | cut -c1-90 | head -3 | tr '\n' ';')"
tail -1 "$d/log" | cut -c1-160
rm -rf "$d"
