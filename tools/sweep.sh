#!/bin/bash
# tools/sweep.sh <tier> <seed>... : run every check for the given seeds, print one line per run
tier="$1"; shift
cd "$(dirname "$0")/.."
for seed in "$@"; do
  for i in $(seq -w 1 20); do
    p="C$i"
    out=$(VERIF_SEED=$seed PYTHONHASHSEED=0 ./check $p --tier $tier 2>&1)
    rc=$?
    echo "rc=$rc seed=$seed $(echo "$out" | grep -E '^(HELD|FAILED|INCONCLUSIVE) ' | tail -1 | cut -c1-220)"
    if [ $rc -ne 0 ]; then echo "$out" | grep -E '^(VIOLATION|INCONCLUSIVE property|KNOWN|ORACLE)' | cut -c1-400 | head -8; fi
  done
done
