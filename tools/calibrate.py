#!/usr/bin/env python3
"""Calibration (DESIGN section 6.0): run the repository's own test suite with the
monitors installed - every object the library constructs or moves is passed
through the invariant hooks, the hash-boundary observer and the trace monitor
are on.  A hook that fires here is either too strict or something the tests do
not assert; read the witness before relaxing anything.  Nothing is written into
the repository.   /venv/bin/python tools/calibrate.py"""
import os
import sys

ROOT = os.path.dirname(os.path.dirname(os.path.abspath(__file__)))
sys.path.insert(0, ROOT)
os.environ["G3DV_INTERNAL_INV"] = "1"
os.environ["PYTHONDONTWRITEBYTECODE"] = "1"
sys.dont_write_bytecode = True
from g3dv import monitor as M          # noqa: E402
from g3dv.lib import load, REPO        # noqa: E402

load()
M.install(trace=True, lines=True)
import logging                          # noqa: E402
logging.disable(logging.NOTSET)
import pytest                           # noqa: E402

os.chdir(REPO)
rc = pytest.main(["-q", "-p", "no:cacheprovider", os.path.join(REPO, "unit_tests")])
print("pytest exit code:", rc)
print("objects constructed / moved under the hooks:", dict(M.ST.ctor_counts))
print("invariant diagnostics:", dict(M.ST.inv_internal))
print("hash evaluations observed: %d, boundary flags: %d" % (M.ST.hash_evals, M.ST.hash_flags_total))
print("library functions reached: %d, lines: %d" % (len(M.ST.funcs), len(M.ST.lines)))
print("raise sites reached:", dict(M.ST.raises))
fired = {k: v for k, v in M.ST.inv_internal.items() if k != "evaluated"}
sys.exit(1 if (rc != 0 or fired) else 0)
