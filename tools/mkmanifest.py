#!/usr/bin/env python3
"""Regenerate MANIFEST.json from the table below (python3 tools/mkmanifest.py)."""
import json
import os

ROOT = os.path.dirname(os.path.dirname(os.path.abspath(__file__)))

BASE = ("trusted base: the exact Fraction kernel g3dv/kernel.py, the denoted-set comparators in g3dv/desc.py and CPython's "
        "fractions; only generated admitted cases are judged (margin >= 1e-3, no hashed quantity within 5e-13 of a rounding "
        "boundary); the run is inconclusive (exit 2), not held, when its minimum-observation table is not met; besides "
        "freshly constructed operands, about one case in ten uses an operand with a history (built elsewhere, used, moved "
        "into place in one or two moves or by item assignment, siblings / the object returned by move moved on - the judged "
        "object is then read back from its own attributes), constructor Points may have a past or be moved away afterwards, "
        "judged results that share nothing with the operands are moved by the caller and the question asked again, and every "
        "40th case is a prelude that uses and moves the library's factory objects")

CHECKS = {
 "C01": ("reference-model monitor: exact rational oracle at the intersection() call boundary + invariant hooks on results",
         "Every generated flat-flat case is executed on the real library and its return value compared, as a denoted point set, "
         "with an independent exact (Fraction) computation of a∩b; 25 ordered pairs x labelled scenario classes (all collinear "
         "interval relations in both senses, parallel, skew, coplanar crossing in/at-end/outside, plane cases). Held = no "
         "disagreement on N admitted executions; this is exploration, not proof.", "3 C01"),
 "C02": ("reference-model monitor: exact interval clipping / vertex enumeration oracle at the call boundary",
         "Flat primitive vs lattice convex polygon/polyhedron in both argument orders and both call forms, 75% of cases built "
         "through vertices/edges/faces of the body; result compared as a vertex set with exact clipping of f by the body's "
         "H-representation; returned objects pass the invariant hooks.", "3 C02"),
 "C03": ("reference-model monitor: exact brute-force vertex enumeration; float instantiation for rotated poses; invariant hooks (Euler, edge-manifold, outward normals) on results",
         "Convex-convex intersections on lattice bodies in constructed relative positions (shared vertex/edge/face, translated "
         "and scaled copies, coplanar polygons) against exact vertex enumeration of the joint H-representation, plus randomly "
         "rotated irrational poses against the same enumeration in floats under a general-position guard; results' length/area/"
         "volume re-checked against exact values.", "3 C03"),
 "C04": ("trace/exception monitor + pairwise comparison of the four call forms over all 49 ordered kind pairs; result types against the table parsed from the docs",
         "All 49 ordered operand-kind pairs are enumerated; per case the function form in both orders and both method forms are "
         "run, exceptions classified (NotImplementedError / 'Bug detected' / other), results compared pairwise as denoted sets and "
         "their kinds checked against docs/source/example_operation.rst parsed at run time (28 rows or inconclusive); None operands.", "3 C04"),
 "C05": ("reference-model monitor: exact containment oracle at the `in` boundary",
         "The 18 supported (candidate, container) kind pairs with candidates on every boundary feature class, displaced across "
         "each feature, on the carrier outside the extent, sub-objects and parallel-displaced copies; bool(x in S) compared with "
         "exact containment of every point of x; a tenth of the Point questions are two lattice points CPython hashes alike (a "
         "coordinate -1 against -2) asked one after the other of ONE container object that separates them.", "3 C05"),
 "C06": ("reference-model monitor: exact rational cross-product / determinant measures; enumerated vertex permutations and face-orientation patterns",
         "length/area/volume/height and volume() on lattice segments, polygons (3-8 vertices, all permutations for <=5), polyhedra "
         "(all 2^F orientation patterns for F<=6) and pyramids over int/float/Fraction coordinates, relative tolerance 1e-9.", "3 C06"),
 "C10": ("reference-model monitor: exact squared distance; exception classifier; zero-iff-intersecting cross-check",
         "distance() in both argument orders, Line/Plane method forms and Point.distance on the five documented pairs over "
         "coincident/parallel/intersecting/skew/perpendicular positions against the exact rational squared distance; also >= 0, "
         "no exception, and distance < 1e-9 iff intersection is not None.", "4 C10"),
 "C11": ("reference-model monitor: exact cos^2 of lattice directions; exception classifier",
         "angle / parallel / orthogonal (functions and Line/Plane methods, both orders) on lattice direction pairs including every "
         "exactly parallel / anti-parallel multiple and exact perpendiculars, for Line/Line, Line/Plane, Plane/Plane and "
         "Vector/Vector; exhaustive over |c|<=2 in the thorough tier.", "4 C11"),
 "C16": ("reference-model monitor: exact rational rank / re-evaluation of every equation; bounded-exhaustive enumeration",
         "Every augmented matrix with entries in {-2..2} of shapes 1x3, 1x4, 2x3 (quick) plus 2x4, 3x3 and 3x4 over {-1,0,1} "
         "(thorough, 4.2M matrices) is passed to solve(); truthiness vs exact rank test, free-parameter count vs n - rank, and "
         "three calls with different parameter tuples whose results are substituted into every original equation (exactly for "
         "Fraction entries). Exhaustive within the bound, exploration beyond it.", "5 C16"),
 "C17": ("round-trip monitor at the constructor / accessor boundary with denoted-set comparator; exhaustive over small general forms",
         "All 2394 general forms over {-3..3}^4 and all 342 normals/directions with |c|<=3: Plane(a,b,c,d) membership of exact and "
         "displaced points, general_form / point_normal / parametric round trips (== and denoted-set comparison, independence and "
         "in-plane test of the parametric vectors), three-point form, negation; Line constructor forms pairwise and parametric().", "5 C17"),
 "C18": ("shadow-value execution (polynomial-ring elements pushed through the real Vector/Point code, branching on a value raises) + type monitor + numeric consistency monitor",
         "The component formulas and the three identities are observed as polynomial identities on the single value-independent "
         "path the real code takes for ring-valued inputs; component types are monitored for int/Fraction/Decimal/float/user "
         "vectors and all 125 type mixtures in one constructor call; length/normalized/unit/angle consistency over magnitudes "
         "1e-6..1e6. Dynamic analysis of executions, not a proof.", "5 C18"),
 "C19": ("configuration-history monitor: outcome vectors of ==/hash/in/intersection under perturbations scaled to the live eps; get_eps/get_sig_figures call-site spies",
         "Random setter histories with the eps/sig-figures relation checked after each call; at each final eps in 1e-12..1e-5 a "
         "catalogue object of each of 10 kinds in 9 axis and Pythagorean frames (three with a zero leading direction / normal component) is compared with a copy perturbed by eps/1000 or "
         "eps/100 (must be ==, hash-equal, mutually containing, coincident) and Points/Vectors 4 eps apart must differ; previous "
         "setting restored and re-evaluated. The spies list which comparison sites read the live setting.", "5 C19"),
 "C07": ("history monitor: per-step probes of receiver and return value against a freshly constructed object and the exact translate; invariant hooks on live objects",
         "Move histories (1-6 lattice moves, two aliasing-aware styles) on all seven types; after every step the moved receiver and "
         "the returned object are probed - invariant hooks (carrier line follows the end points, plane/centre/point sets rebuilt), "
         "denoted set vs the exactly translated descriptor, ==/hash vs a fresh object, `in`, intersection with partners, distance / "
         "angle / parallel / orthogonal, measures - and the answers compared with the fresh object's; ends with move(v); move(-v).", "4 C07"),
 "C08": ("representation-family monitor on ==, !=, hash and set deduplication; near-miss families; foreign-type comparison",
         "For each base object an alternative exact representation of the same set (other defining points, scaled / negated "
         "directions and normals, two-/three-point and two-vector forms, swapped endpoints, vertex rotations / reflections / "
         "duplicates, face order and orientation, int/float/Fraction, move-and-back, float-noise copies a few ulps off with every "
         "copy of a shared vertex drawn afresh - what computed results carry) must be ==, hash-equal and deduplicate in a "
         "set; a robustly different near-miss must compare unequal both ways; == against foreign types must be False.", "4 C08"),
 "C09": ("invariant hooks on constructed objects + set comparison with the exact hull; enumerated permutations / orientation patterns; library outputs fed back",
         "ConvexPolygon from every permutation (<=5 vertices) / sampled permutations with duplicates: exact vertex set, cycle "
         "counter-clockwise about the stored normal, -p and -(-p); ConvexPolyhedron from shuffled faces in every orientation "
         "pattern (F<=6): outward normals, exact vertex/edge/face sets, Euler, edge-manifold, centre inside; intersection results "
         "rebuilt from their own noisy vertices.", "4 C09"),
 "C12": ("metamorphic trace monitor over nested intersection calls on the library's own outputs, exact oracle for admission and as third opinion",
         "All 343 kind triples: idempotence, the containment law (exact containment), membership of every result vertex in both "
         "operands, and (a∩b)∩c ~ a∩(b∩c) with the library's own intermediate results; the exact a∩b∩c tells which nesting is wrong.", "4 C12"),
 "C13": ("metamorphic monitor: every query re-run on operands transformed by a signed axis permutation, lattice translation and scale",
         "For each base pair and each sampled T among the 48 cube symmetries x translation x k in {1/2,1,2,3}: intersection / in / "
         "distance / angle / parallel / orthogonal / == / length / area / volume on (Ta,Tb) must equal T applied to the answer on "
         "(a,b); all 48 permutations are exercised for every query class.", "4 C13"),
 "C14": ("spec-level monitor of builder outputs: invariant hooks, counts, vertex-on-circle / equal-angle tests, closed-form measures; purity snapshots of arguments",
         "Parallelogram, Parallelepiped, Circle, Cylinder, Cone, Sphere over lattice centres, radii in (0.25,8), all 26 lattice "
         "directions, random and near-axis directions (including the exact +-x, +-y, +-z), n 3..24, n1 3..12, n2 2..5: valid closed "
         "convex result, V/E/F, vertices on the specified circles at equal angular steps, closed-form area/volume (rel 1e-9), "
         "arguments unchanged.", "5 C14"),
 "C15": ("exception monitor over a catalogue of invalid-input classes; exhaustive enumeration of unsupported operand-kind pairs; invariant hook on anything returned",
         "Every invalid class of the property instantiated over positions/poses/magnitudes (exact and 1e-12-degenerate) must "
         "raise; a return is a violation (for tolerance-degenerate input only if the returned object fails its invariant hook); "
         "open face sets in ten forms incl. one face replaced by a copy of another (V, E, F and incidence totals of the closed body); "
         "all 521 unsupported (function, kind, kind) combinations over 11 operand kinds and move() with non-Vector arguments must "
         "raise NotImplementedError / ValueError / TypeError and never return a value or an exception instance.", "5 C15"),
 "C20": ("purity / frame monitor: full public-attribute snapshots of every live object around every step of random query / mutation / copy histories",
         "Worlds of 11 live objects built from shared argument objects; 5-30 step scripts of queries, in-place mutations of the "
         "shared arguments, deep copies and moves; snapshots of all live objects are compared after every step (queries change "
         "nothing; owners do not follow their arguments; copies are independent) and probe queries are answered before and after "
         "the history.", "5 C20"),
}


def main():
    checks = []
    for pid in sorted(CHECKS):
        tech, text, ref = CHECKS[pid]
        checks.append({
            "property_id": pid,
            "quick_cmd": "./check %s --tier quick" % pid,
            "thorough_cmd": "./check %s --tier thorough" % pid,
            "evidence_file": "/verif/evidence/%s.json" % pid,
            "replay_cmd_template": "./check %s --replay {path}" % pid,
            "engine": "g3dv",
            "level_claimed": {"category": "exploration", "text": text, "design_ref": "DESIGN.md section " + ref},
            "level_note": BASE,
            "technique": tech,
        })
    allp = ["C%02d" % i for i in range(1, 21)]
    na = [{"property_id": p, "reason": "not claimed"} for p in allp if p not in CHECKS]
    man = {
        "version": 1,
        "setup_cmd": "/venv/bin/python -c \"import sys; assert sys.version_info >= (3, 12); import Geometry3D\" && chmod +x check",
        "hooks": {
            "guard": "G3D_VERIF",
            "enable": "no source hooks: every monitor is installed from outside by rebinding module globals / class attributes at import time (g3dv/monitor.py), so the guard is unused and the library is always run unmodified from /repo's working tree",
            "baseline_off_cmd": "cd /repo && /venv/bin/python -m pytest -q -p no:cacheprovider unit_tests",
            "source_commits": [],
            "add_only": True,
        },
        "engines": [{"name": "g3dv", "path": "g3dv/", "serves_properties": sorted(CHECKS),
                     "kind_free_text": "runtime monitoring harness: exact reference model + call-boundary / invariant / purity / trace monitors over generated workloads, 16 worker processes with swept PYTHONHASHSEED"}],
        "checks": checks,
        "not_applicable": na,
        "notes": "Runtime monitoring only (no compiler sanitizers: the library is single-threaded pure Python). Genuine defects found are repaired by fix: commits in /repo and listed in known_findings.json. See DESIGN.md.",
    }
    with open(os.path.join(ROOT, "MANIFEST.json"), "w") as f:
        json.dump(man, f, indent=1)
    print("wrote MANIFEST.json with %d checks, %d not_applicable" % (len(checks), len(na)))


if __name__ == "__main__":
    main()
