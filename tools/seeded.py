#!/usr/bin/env python3
"""Evaluate the independently seeded changes under seeded/<id>/ (patch.diff, demo.py, meta.json).

For each: (1) on an unpatched scratch copy of /repo the demonstration passes; (2) with
patch.diff applied the repository's own suite still passes and the demonstration fails;
(3) the quick tier of the tagged check (and optionally others: --also C01,C04) is run
against the patched copy with VERIF_REPO / VERIF_OUT pointing at scratch space.
Results go to seeded/<id>/result.json and seeded/SUMMARY.md.  Scratch copies live under
$TMPDIR and are removed."""
import argparse
import json
import os
import shutil
import subprocess
import sys
import tempfile
import time

ROOT = os.path.dirname(os.path.dirname(os.path.abspath(__file__)))
REPO = "/repo"
PY = "/venv/bin/python"


def sh(cmd, **kw):
    return subprocess.run(cmd, capture_output=True, text=True, **kw)


def make_copy():
    d = tempfile.mkdtemp(prefix="g3d-seeded-")
    for name in ("Geometry3D", "unit_tests", "docs"):
        shutil.copytree(os.path.join(REPO, name), os.path.join(d, name), ignore=shutil.ignore_patterns("__pycache__", "*.pyc", "_build"))
    return d


def run_check(prop, d, budget="1"):
    env = dict(os.environ, VERIF_REPO=d, VERIF_OUT=os.path.join(d, ".verif-out"), VERIF_BUDGET=budget)
    r = sh([os.path.join(ROOT, "check"), prop, "--tier", "quick"], cwd=ROOT, env=env, timeout=1800)
    viol = [l for l in r.stdout.splitlines() if l.startswith("VIOLATION")]
    keys = sorted(set(l.split("key=")[1].split(" ")[0] for l in viol if "key=" in l))
    last = [l for l in r.stdout.splitlines() if l.split(" ")[0] in ("HELD", "FAILED", "INCONCLUSIVE")]
    return {"rc": r.returncode, "violation_lines": len(viol), "keys": keys[:8], "first": (viol[0][:400] if viol else ""),
            "summary": (last[-1] if last else r.stderr[-300:])[:220]}


def main():
    ap = argparse.ArgumentParser()
    ap.add_argument("ids", nargs="*")
    ap.add_argument("--also", default="")
    a = ap.parse_args()
    base = os.path.join(ROOT, "seeded")
    ids = a.ids or sorted(x for x in os.listdir(base) if os.path.isdir(os.path.join(base, x)))
    for sid in ids:
        sd = os.path.join(base, sid)
        meta = json.load(open(os.path.join(sd, "meta.json")))
        prop = meta.get("checked_by", meta["property"])      # (a change delivered for one property may break another one's statement instead)
        res = {"property": prop, "at": time.strftime("%Y-%m-%d %H:%M:%S"), "repo_head": sh(["git", "-C", REPO, "rev-parse", "--short", "HEAD"]).stdout.strip()}
        d = make_copy()
        try:
            env = dict(os.environ, PYTHONPATH=d, PYTHONDONTWRITEBYTECODE="1")
            r0 = sh([PY, os.path.join(sd, "demo.py")], cwd=d, env=env, timeout=600)
            res["demo_on_unchanged"] = r0.returncode
            ap_ = sh(["git", "apply", "--unsafe-paths", "--directory=" + d, os.path.join(sd, "patch.diff")], cwd=d)
            if ap_.returncode != 0:
                ap_ = sh(["patch", "-p1", "-i", os.path.join(sd, "patch.diff")], cwd=d)
            res["patch_applies"] = ap_.returncode == 0
            if not res["patch_applies"]:
                res["patch_error"] = (ap_.stderr or ap_.stdout)[-400:]
            else:
                t = sh([PY, "-m", "pytest", "-q", "-p", "no:cacheprovider", "unit_tests"], cwd=d, env=env, timeout=900)
                res["baseline_with_change"] = (t.stdout.strip().splitlines() or [""])[-1]
                res["baseline_passes"] = t.returncode == 0
                r1 = sh([PY, os.path.join(sd, "demo.py")], cwd=d, env=env, timeout=600)
                res["demo_with_change"] = r1.returncode
                res["demo_output"] = (r1.stdout + r1.stderr)[-500:]
                res["check"] = run_check(prop, d)
                res["caught"] = res["check"]["rc"] == 1 and res["check"]["violation_lines"] > 0
                if a.also:
                    res["also"] = {p: run_check(p, d) for p in a.also.split(",") if p and p != prop}
        finally:
            shutil.rmtree(d, ignore_errors=True)
        json.dump(res, open(os.path.join(sd, "result.json"), "w"), indent=1)
        # meta.json carries what the author said plus what we confirmed ourselves
        meta["what_we_ran"] = {
            "commands": ["copy of /repo working tree under $TMPDIR; demo.py on the unchanged copy",
                         "patch.diff applied to the copy; /venv/bin/python -m pytest -q -p no:cacheprovider unit_tests",
                         "demo.py on the changed copy",
                         "VERIF_REPO=<copy> VERIF_OUT=<copy>/.verif-out ./check %s --tier quick" % prop],
            "demo_exit_unchanged": res.get("demo_on_unchanged"), "own_suite_with_change": res.get("baseline_with_change"),
            "demo_exit_with_change": res.get("demo_with_change"), "check_exit_code": (res.get("check") or {}).get("rc"),
            "caught": res.get("caught"), "violation_keys": (res.get("check") or {}).get("keys"), "repo_head": res.get("repo_head"), "at": res.get("at")}
        json.dump(meta, open(os.path.join(sd, "meta.json"), "w"), indent=1)
        print("%-28s %s valid=%s caught=%s keys=%s" % (sid, prop, res.get("baseline_passes") and res.get("demo_with_change") != 0 and res.get("demo_on_unchanged") == 0,
                                                  res.get("caught"), (res.get("check") or {}).get("keys")), flush=True)
    # summary
    lines = ["# Independently seeded changes", "", "| id | property | what was changed | needs | own suite | demo (unchanged / changed) | check verdict | keys |", "|---|---|---|---|---|---|---|---|"]
    for sid in sorted(x for x in os.listdir(base) if os.path.isdir(os.path.join(base, x))):
        sd = os.path.join(base, sid)
        if not os.path.exists(os.path.join(sd, "result.json")):
            continue
        m = json.load(open(os.path.join(sd, "meta.json")))
        r = json.load(open(os.path.join(sd, "result.json")))
        lines.append("| %s | %s | %s | %s | %s | %s / %s | **%s** | %s |" % (
            sid, m["property"] + (" (judged by %s)" % m["checked_by"] if m.get("checked_by") else ""), m.get("summary", "").replace("|", "/"), m.get("needs", "").replace("|", "/"),
            "passes" if r.get("baseline_passes") else "FAILS", r.get("demo_on_unchanged"), r.get("demo_with_change"),
            "caught" if r.get("caught") else ("not caught - " + m["not_pursued"] if m.get("not_pursued") else ("MISSED by the quick tier - " + m["note"] if m.get("note") else "MISSED")),
            "; ".join((r.get("check") or {}).get("keys", [])[:3]).replace("|", "/")))
    open(os.path.join(base, "SUMMARY.md"), "w").write("\n".join(lines) + "\n")


if __name__ == "__main__":
    main()
